#!/venv/bin/python
# -*- coding: utf-8 -*-
"""Regenerates contracts/parser_unverified.json: the functions of vsg/vhdlFile/classify whose GENERATED contract (contracts/parser.py)
does not verify on the current (unchanged) tree.  Run by hand on the pinned tree after a fix: commit; never run by a check."""
import collections
import json
import os
import sys

os.environ["PYVC_PARSER_SWEEP"] = "1"
sys.path.insert(0, os.path.dirname(os.path.abspath(__file__)))
from pyvc.engine import Engine, discharge  # noqa: E402

e = Engine()
gen = [q for q in sorted(e.contracts) if e.contracts[q].get("generated")]
out = {}
obls, owner, ok = [], {}, []
for q in gen:
    r = e.verify_function(q)
    if r["status"] != "ok":
        out[q] = "outside the verifier's subset: " + (r.get("reason") or "")[:140]
    else:
        ok.append(q)
        obls += r["obligations"]
        for o in r["obligations"]:
            owner[o.name] = q
res = discharge(obls, timeout=30, engine=e)
bad = collections.defaultdict(list)
for x in res:
    if x["kind"] != "reach" and x["verdict"] != "unsat":
        bad[owner[x["name"]]].append("%s (%s)" % (x["name"].split("#")[1], x["verdict"]))
for q, l in bad.items():
    out[q] = "obligations that do not discharge: " + ", ".join(l[:4])
json.dump(out, open(os.path.join(os.path.dirname(os.path.abspath(__file__)), "contracts", "parser_unverified.json"), "w"), indent=1, sort_keys=True)
print("%d generated contracts, %d verified, %d listed as unverified (%d outside the subset, %d with open obligations); %d obligations" % (len(gen), len(gen) - len(out), len(out), len(out) - len(bad), len(bad), len(obls)))
