# -*- coding: utf-8 -*-
"""Reads the real source under /repo on every run: module ASTs, functions, classes,
module-level literal constants, import tables.  Nothing is copied or translated."""
import ast
import hashlib
import os

REPO = os.environ.get("VSG_REPO", "/repo")


class Module(object):
    def __init__(self, name, path):
        self.name = name
        self.path = path
        with open(path, encoding="utf-8") as f:
            self.src = f.read()
        self.tree = ast.parse(self.src, path)
        self.funcs = {}  # qual within module ("f" or "C.m") -> FunctionDef
        self.classes = {}  # name -> ClassDef
        self.consts = {}  # name -> python literal
        self.imports = {}  # local name -> dotted target (module or module.member)
        for node in self.tree.body:
            if isinstance(node, ast.FunctionDef):
                self.funcs[node.name] = node
            elif isinstance(node, ast.ClassDef):
                self.classes[node.name] = node
                for sub in node.body:
                    if isinstance(sub, ast.FunctionDef):
                        self.funcs[node.name + "." + sub.name] = sub
            elif isinstance(node, ast.Assign) and len(node.targets) == 1 and isinstance(node.targets[0], ast.Name):
                try:
                    self.consts[node.targets[0].id] = ast.literal_eval(node.value)
                except Exception:
                    pass
            elif isinstance(node, ast.Import):
                for a in node.names:
                    self.imports[a.asname or a.name.split(".")[0]] = a.name if a.asname else a.name.split(".")[0]
            elif isinstance(node, ast.ImportFrom):
                base = node.module or ""
                if node.level:
                    is_pkg = os.path.basename(path) == "__init__.py"
                    pkg = name.split(".") if is_pkg else name.split(".")[:-1]
                    if node.level > 1:
                        pkg = pkg[: len(pkg) - (node.level - 1)]
                    base = ".".join(pkg + ([node.module] if node.module else []))
                for a in node.names:
                    self.imports[a.asname or a.name] = base + "." + a.name


class Repo(object):
    def __init__(self, root=None):
        self.root = root or REPO
        self.modules = {}

    def module(self, name):
        if name in self.modules:
            return self.modules[name]
        rel = name.replace(".", "/")
        for cand in (rel + ".py", rel + "/__init__.py"):
            p = os.path.join(self.root, cand)
            if os.path.isfile(p):
                m = Module(name, p)
                self.modules[name] = m
                return m
        return None

    def loaded_modules(self):
        return list(self.modules.values())

    def resolve(self, dotted):
        """dotted name -> ('module', Module) | ('func', Module, qual) | ('class', Module, name) | ('const', value) | None"""
        parts = dotted.split(".")
        for k in range(len(parts), 0, -1):
            m = self.module(".".join(parts[:k]))
            if m is None:
                continue
            rest = parts[k:]
            if not rest:
                return ("module", m)
            q = ".".join(rest)
            if q in m.funcs:
                return ("func", m, q)
            if len(rest) == 1 and rest[0] in m.classes:
                return ("class", m, rest[0])
            if len(rest) == 1 and rest[0] in m.consts:
                return ("const", m.consts[rest[0]])
            if rest[0] in m.imports:
                return self.resolve(m.imports[rest[0]] + ("." + ".".join(rest[1:]) if rest[1:] else ""))
            return None
        return None

    def func(self, qual):
        r = self.resolve(qual)
        if r and r[0] == "func":
            return r[1], r[2], r[1].funcs[r[2]]
        return None


def ast_hash(node):
    return hashlib.sha1(ast.dump(node, annotate_fields=False, include_attributes=False).encode()).hexdigest()[:12]
