# -*- coding: utf-8 -*-
"""Typed SMT-LIB terms for pyvc.

A term is an immutable tree (op, args, sort).  Sorts:
  'Int' 'Bool' 'String' 'Ref' (printed Int)  ('Seq', s)  ('Array', k, v)  'Val'
Python semantics that matter (negative indices, slice clamping, truthiness) are
made explicit by the builders in this file so that symex.py and the spec
evaluator share one encoding.
"""

INT, BOOL, STR, REF, VAL = "Int", "Bool", "String", "Ref", "Val"


def Seq(s):
    return ("Seq", s)


def Arr(k, v):
    return ("Array", k, v)


def sort_str(s):
    if s == REF:
        return "Int"
    if isinstance(s, tuple):
        if s[0] == "Seq":
            if s[1] == STR and False:
                return "(Seq String)"
            return "(Seq %s)" % sort_str(s[1])
        if s[0] == "Array":
            return "(Array %s %s)" % (sort_str(s[1]), sort_str(s[2]))
    return s


class T(object):
    __slots__ = ("op", "args", "sort", "_s", "_h")

    def __init__(self, op, args=(), sort=None):
        self.op = op
        self.args = tuple(args)
        self.sort = sort
        self._s = None
        self._h = None

    def __str__(self):
        if self._s is None:
            self._s = _print(self)
        return self._s

    __repr__ = __str__

    def __hash__(self):
        if self._h is None:
            self._h = hash(str(self))
        return self._h

    def __eq__(self, o):
        return isinstance(o, T) and str(self) == str(o)

    def is_lit(self):
        return self.op in ("#int", "#str", "#bool")

    @property
    def val(self):
        return self.args[0]


def _str_lit(s):
    out = []
    for ch in s:
        o = ord(ch)
        if ch == '"':
            out.append('""')
        elif ch == "\\" or o < 32 or o > 126:
            out.append("\\u{%x}" % o)
        else:
            out.append(ch)
    return '"' + "".join(out) + '"'


def _print(t):
    op = t.op
    if op == "#int":
        n = t.args[0]
        return str(n) if n >= 0 else "(- %d)" % (-n)
    if op == "#bool":
        return "true" if t.args[0] else "false"
    if op == "#str":
        return _str_lit(t.args[0])
    if op == "#empty":
        return "(as seq.empty %s)" % sort_str(t.sort)
    if op == "#const":
        return t.args[0]
    if op == "#forall":
        k, rng, body = t.args
        return "(forall ((%s %s)) (=> %s %s))" % (k, sort_str(k.sort), rng, body)
    if op == "#exists":
        k, rng, body = t.args
        return "(exists ((%s %s)) (and %s %s))" % (k, sort_str(k.sort), rng, body)
    if not t.args:
        return op
    return "(" + op + " " + " ".join(str(a) for a in t.args) + ")"


# ----------------------------------------------------------------- literals
def I(n):
    return T("#int", (int(n),), INT)


def B(b):
    return T("#bool", (bool(b),), BOOL)


def S(s):
    return T("#str", (s,), STR)


TRUE, FALSE = B(True), B(False)


def Const(name, sort):
    return T("#const", (name,), sort)


def Empty(elem):
    if elem == "Char":
        return S("")
    return T("#empty", (), Seq(elem))


def App(op, args, sort):
    return T(op, args, sort)


# ----------------------------------------------------------------- booleans
def Not(a):
    if a.op == "#bool":
        return B(not a.val)
    if a.op == "not":
        return a.args[0]
    return T("not", (a,), BOOL)


def And(*xs):
    out = []
    for x in xs:
        if x.op == "#bool":
            if not x.val:
                return FALSE
            continue
        if x.op == "and":
            out.extend(x.args)
        else:
            out.append(x)
    if not out:
        return TRUE
    if len(out) == 1:
        return out[0]
    return T("and", out, BOOL)


def Or(*xs):
    out = []
    for x in xs:
        if x.op == "#bool":
            if x.val:
                return TRUE
            continue
        if x.op == "or":
            out.extend(x.args)
        else:
            out.append(x)
    if not out:
        return FALSE
    if len(out) == 1:
        return out[0]
    return T("or", out, BOOL)


def Implies(a, b):
    if a.op == "#bool":
        return b if a.val else TRUE
    if b.op == "#bool" and b.val:
        return TRUE
    return T("=>", (a, b), BOOL)


def Ite(c, a, b):
    if c.op == "#bool":
        return a if c.val else b
    if a == b:
        return a
    if a.sort == BOOL and a.op == "#bool" and b.op == "#bool":
        return c if a.val else Not(c)
    return T("ite", (c, a, b), a.sort)


def Eq(a, b):
    if a.is_lit() and b.is_lit():
        return B(a.val == b.val)
    if str(a) == str(b):
        return TRUE
    return T("=", (a, b), BOOL)


def Ne(a, b):
    return Not(Eq(a, b))


# ----------------------------------------------------------------- integers
def _lin(t, k, acc):
    """accumulate k*t into acc: {atom string: (coeff, atom term)}, constant under key None"""
    if t.op == "#int":
        acc[None] = acc.get(None, 0) + k * t.val
    elif t.op == "+":
        for a in t.args:
            _lin(a, k, acc)
    elif t.op == "-" and len(t.args) == 2:
        _lin(t.args[0], k, acc)
        _lin(t.args[1], -k, acc)
    elif t.op == "-" and len(t.args) == 1:
        _lin(t.args[0], -k, acc)
    elif t.op == "*" and len(t.args) == 2 and t.args[0].op == "#int":
        _lin(t.args[1], k * t.args[0].val, acc)
    elif t.op == "*" and len(t.args) == 2 and t.args[1].op == "#int":
        _lin(t.args[0], k * t.args[1].val, acc)
    else:
        key = str(t)
        c, _ = acc.get(key, (0, t))
        acc[key] = (c + k, t)


def _build_lin(acc):
    const = acc.pop(None, 0)
    pos, neg = [], []
    for key in sorted(acc):
        c, t = acc[key]
        if c == 0:
            continue
        term = t if abs(c) == 1 else T("*", (I(abs(c)), t), INT)
        (pos if c > 0 else neg).append(term)
    if not pos and not neg:
        return I(const)
    if pos:
        res = pos[0] if len(pos) == 1 else T("+", pos, INT)
    else:
        res = None
    for n in neg:
        res = T("-", (n,), INT) if res is None else T("-", (res, n), INT)
    if const > 0:
        res = T("+", (res, I(const)), INT) if res.op != "+" else T("+", res.args + (I(const),), INT)
    elif const < 0:
        res = T("+", (res, I(const)), INT) if res.op != "+" else T("+", res.args + (I(const),), INT)
    return res


def Add(a, b):
    acc = {}
    _lin(a, 1, acc)
    _lin(b, 1, acc)
    return _build_lin(acc)


def Sub(a, b):
    acc = {}
    _lin(a, 1, acc)
    _lin(b, -1, acc)
    return _build_lin(acc)


def Mul(a, b):
    if a.op == "#int" and b.op == "#int":
        return I(a.val * b.val)
    if a.op == "#int" or b.op == "#int":
        acc = {}
        _lin(T("*", (a, b), INT), 1, acc)
        return _build_lin(acc)
    return T("*", (a, b), INT)


def Neg(a):
    acc = {}
    _lin(a, -1, acc)
    return _build_lin(acc)


def _cmp(op, pyop):
    def f(a, b):
        if a.op == "#int" and b.op == "#int":
            return B(pyop(a.val, b.val))
        return T(op, (a, b), BOOL)

    return f


import operator as _o

Lt = _cmp("<", _o.lt)
Le = _cmp("<=", _o.le)
Gt = _cmp(">", _o.gt)
Ge = _cmp(">=", _o.ge)


def Max(a, b):
    return Ite(Ge(a, b), a, b)


def Min(a, b):
    return Ite(Le(a, b), a, b)


# ------------------------------------------------------- sequences / strings
def is_seq(s):
    return s == STR or (isinstance(s, tuple) and s[0] == "Seq")


def elem_sort(s):
    return STR if s == STR else s[1]


def Len(x):
    if x.op == "#str":
        return I(len(x.val))
    if x.op == "#empty":
        return I(0)
    if x.op == "seq.unit":
        return I(1)
    return T("str.len" if x.sort == STR else "seq.len", (x,), INT)


def Unit(x):
    return T("seq.unit", (x,), Seq(x.sort))


def Concat(*xs):
    srt = xs[0].sort
    out = []
    for x in xs:
        if x.op in ("#empty",) or (x.op == "#str" and x.val == ""):
            continue
        if x.op in ("seq.++", "str.++"):
            out.extend(x.args)
        else:
            out.append(x)
    # fold adjacent string literals
    if srt == STR:
        o2 = []
        for x in out:
            if o2 and o2[-1].op == "#str" and x.op == "#str":
                o2[-1] = S(o2[-1].val + x.val)
            else:
                o2.append(x)
        out = o2
    if not out:
        return S("") if srt == STR else T("#empty", (), srt)
    if len(out) == 1:
        return out[0]
    return T("str.++" if srt == STR else "seq.++", out, srt)


def Nth(x, i):
    """total element access (spec semantics, no bounds check, no wrap)."""
    if x.sort == STR:
        return T("str.at", (x, i), STR)
    if x.op == "seq.unit" and i.op == "#int" and i.val == 0:
        return x.args[0]
    return T("seq.nth", (x, i), x.sort[1])


def Extract(x, start, n):
    """SMT extract: empty if start<0 or start>=len or n<=0, else clamped."""
    if n.op == "#int" and n.val <= 0:
        return S("") if x.sort == STR else T("#empty", (), x.sort)
    return T("str.substr" if x.sort == STR else "seq.extract", (x, start, n), x.sort)


def syn_nonneg(t):
    """syntactically non-negative integer term (loop ghost indices, lengths, sums of those)"""
    if t.op == "#int":
        return t.val >= 0
    if t.op == "#const":
        return t.args[0].startswith("_i")
    if t.op in ("str.len", "seq.len"):
        return True
    if t.op == "+":
        return all(syn_nonneg(a) for a in t.args)
    if t.op == "*":
        return all(syn_nonneg(a) for a in t.args)
    return False


def norm_index(x, i):
    """python index normalisation: negative wraps once."""
    if i.op == "#int":
        return i if i.val >= 0 else Add(Len(x), i)
    if syn_nonneg(i):
        return i
    return Ite(Lt(i, I(0)), Add(Len(x), i), i)


def PySlice(x, a, b, nonneg=None):
    """Python x[a:b] with clamping; a, b are Int terms or None.  nonneg: bounds the caller knows to be non-negative (their clamps are dropped)"""
    nonneg = nonneg or (lambda t: False)
    n = Len(x)
    if a is None:
        lo = I(0)
    elif (a.op == "#int" and a.val >= 0) or syn_nonneg(a) or nonneg(a):
        lo = a
    elif a.op == "#int":
        lo = Max(Add(n, a), I(0))
    else:
        lo = Ite(Lt(a, I(0)), Max(Add(n, a), I(0)), a)
    if b is None:
        hi = n
    elif (b.op == "#int" and b.val >= 0) or syn_nonneg(b) or nonneg(b):
        hi = b
    elif b.op == "#int":
        hi = Max(Add(n, b), I(0))
    else:
        hi = Ite(Lt(b, I(0)), Max(Add(n, b), I(0)), b)
    return Extract(x, lo, Sub(hi, lo))


def Contains(x, sub):
    return T("str.contains" if x.sort == STR else "seq.contains", (x, sub), BOOL)


def PrefixOf(p, x):
    return T("str.prefixof" if x.sort == STR else "seq.prefixof", (p, x), BOOL)


def SuffixOf(p, x):
    return T("str.suffixof" if x.sort == STR else "seq.suffixof", (p, x), BOOL)


# ------------------------------------------------------------------ arrays
def Select(a, i):
    if a.op == "store" and str(a.args[1]) == str(i):
        return a.args[2]
    return T("select", (a, i), a.sort[2])


def Store(a, i, v):
    return T("store", (a, i, v), a.sort)


# ----------------------------------------------------------------- walking
def subterms(t, seen=None):
    if seen is None:
        seen = {}
    k = str(t)
    if k in seen:
        return seen
    seen[k] = t
    for a in t.args:
        if isinstance(a, T):
            subterms(a, seen)
    return seen


def consts_of(ts):
    """free constants (name -> sort); bound names are globally unique, so a name bound anywhere is never free"""
    out = {}
    seen = {}
    for t in ts:
        subterms(t, seen)
    bound = set()
    for t in seen.values():
        if t.op in ("#forall", "#exists"):
            bound.add(t.args[0].args[0])
    for t in seen.values():
        if t.op == "#const" and t.args[0] not in bound:
            out[t.args[0]] = t.sort
    return out


def subst(t, m):
    """substitute constants by name -> term"""
    if t.op == "#const":
        return m.get(t.args[0], t)
    if not t.args or t.is_lit():
        return t
    na = [subst(a, m) if isinstance(a, T) else a for a in t.args]
    return T(t.op, na, t.sort)


def subst_term(t, old, new):
    """replace every occurrence of subterm `old` by `new`"""
    if str(t) == str(old):
        return new
    if not t.args or t.is_lit() or t.op == "#const":
        return t
    return T(t.op, [subst_term(a, old, new) if isinstance(a, T) else a for a in t.args], t.sort)
