# -*- coding: utf-8 -*-
"""Shared driver for the per-property checks: deductive part (pyvc), replay / search for a
failing input on the real code, bounded stand-ins, known findings, evidence, exit codes.

exit 0  every obligation discharged and every bounded stand-in passed (known findings listed)
exit 1  VIOLATION property=<id> replay=<path>
exit 3  checker fault (never a verdict)
"""
import json
import os
import sys
import time
import traceback

from . import concrete
from .engine import Engine, discharge
from .repo import ast_hash
from .values import parse_type

VERIF = os.path.dirname(os.path.dirname(os.path.abspath(__file__)))
SOLVER_TRUST = [
    "A6: cvc5 1.0.3 / z3 5.1.0 / z3 4.8.12 are sound for `unsat` (an obligation counts as discharged if any one says unsat)",
    "A4: pyvc itself (symbolic executor, list/alias/exception model, ground lemma instantiation); mitigated by seeded mutants and the CPython cross-check, not proved",
    "A1: SMT-LIB strings stand for Python str; code points above U+2FFFF are never inspected",
    "A7: print / debug output has no effect on verified state",
]


def tier():
    t = os.environ.get("VERIF_TIER", "quick")
    for a in sys.argv[1:]:
        if a in ("--tier=thorough", "thorough"):
            t = "thorough"
        if a in ("--tier=quick", "quick"):
            t = "quick"
    if "--tier" in sys.argv:
        t = sys.argv[sys.argv.index("--tier") + 1]
    return t if t in ("quick", "thorough") else "quick"


def seed():
    try:
        return int(os.environ.get("VERIF_SEED", "0"))
    except ValueError:
        return 0


class Finding(object):
    def __init__(self, kind, name, detail, replay=None, witness=None, found_input=True):
        self.kind = kind  # obligation | bounded | crosscheck
        self.name = name
        self.detail = detail
        self.replay = replay or {}
        self.witness = witness  # short stable string identifying the failing input / site
        self.found_input = found_input


class Check(object):
    def __init__(self, pid, level):
        self.pid = pid
        self.level = level
        self.t0 = time.time()
        self.tier = tier()
        self.seed = seed()
        self.findings = []
        self.functions = []  # per function dict
        self.obl_results = []
        self.bounded = {}
        self.assumptions = list(SOLVER_TRUST)
        self.trusted = []
        self.notes = []
        self.samples = []
        self.stale = []
        self.engine = None
        self.extra = {}

    # ----------------------------------------------------------- deductive
    def timeout(self):
        return 20 if self.tier == "quick" else 60

    def deductive(self, quals, concrete_cfg=None):
        """verify each function against its contract. concrete_cfg: qual -> dict(gen=Gen, n=int) for search/cross-check."""
        eng = self.engine or Engine()
        self.engine = eng
        concrete_cfg = concrete_cfg or {}
        if "axioms_validated" not in self.extra:
            from . import axioms

            try:
                self.extra["axioms_validated"] = axioms.validate(self.seed)
            except AssertionError as e:
                raise CheckerFault("lemma schema refuted by CPython: %r" % (e,))
        allobls = []
        owner = {}
        for q in quals:
            r = eng.verify_function(q)
            ent = {"function": q, "status": r["status"], "file": r.get("file"), "line": r.get("line"), "ast_hash": r.get("hash"), "obligations": len(r["obligations"]), "inlined": r.get("inlined", []), "calls_by_contract": r.get("called", [])}
            if r["status"] != "ok":
                ent["reason"] = r["reason"]
                self.stale.append(q)
                # the code under this contract changed so that the contract text no longer applies (a renamed local in an
                # invariant is enough): nothing is proved about it and nothing is refuted either - undecided, said aloud;
                # the bounded part of the check and the concrete contract run still decide what they can
                print("UNDECIDED: property=%s contract of %s no longer applies to the code: %s" % (self.pid, q, r["reason"]))
            self.functions.append(ent)
            for o in r["obligations"]:
                owner[o.name] = q
            allobls.extend(r["obligations"])
        if not allobls and quals:
            if len(self.stale) >= len(quals):
                return []
            raise CheckerFault("zero obligations generated for %s" % self.pid)
        res = discharge(allobls, timeout=self.timeout(), engine=eng)
        # retry undecided ones one at a time with a longer budget (load can make verdicts flip)
        # A handful of such obligations are a load effect and get the long budget each; when a change to the code leaves dozens
        # undecided (one broken clause fails on every path), the retry is done four at a time and is capped, so that the check
        # still ends in minutes: beyond the cap the first verdict stands.
        todo = [i for i, r in enumerate(res) if r["verdict"] in ("unknown", "error") and r["kind"] != "reach"]
        # a function that already has a refuted obligation (a solver model) is decided: its undecided obligations are not retried
        refuted = set(owner[r["name"]] for r in res if r["verdict"] == "sat" and r["kind"] != "reach")
        todo = [i for i in todo if owner[res[i]["name"]] not in refuted]
        if len(todo) <= 6:
            for i in todo:
                r2 = discharge([allobls[i]], timeout=max(60, self.timeout() * 3), workers=1, engine=eng)[0]
                r2["retried"] = True
                res[i] = r2
        else:
            cap = todo[:16]
            rr = discharge([allobls[i] for i in cap], timeout=45, workers=8, engine=eng)
            for i, r2 in zip(cap, rr):
                r2["retried"] = True
                res[i] = r2
        # last resort against a slow or loaded machine: an obligation on which every solver ran into the time limit (none of them
        # answered "unknown" or "sat") gets one long attempt alone, if there are at most three such; a real failure with a solver
        # verdict is not delayed by this
        def all_timed_out(r):
            log = [e for e in (r.get("log") or []) if len(e) == 3 and e[1] != "stderr"]
            return r["verdict"] in ("unknown", "error") and log and all(e[1] in ("error", "timeout") for e in log)

        slow = [i for i in todo if all_timed_out(res[i])]
        if 0 < len(slow) <= 3 and len(todo) <= 6:
            for i in slow:
                r2 = discharge([allobls[i]], timeout=300, workers=1, engine=eng)[0]
                r2["retried"] = "long"
                res[i] = r2
        self.obl_results.extend(res)
        byname = {o.name: o for o in allobls}
        for r in res:
            if r["kind"] == "reach":
                if r["verdict"] == "unsat":
                    raise CheckerFault("vacuous precondition: %s" % r["name"])
                continue
            if r["verdict"] == "unsat":
                continue
            if r["verdict"] == "error":
                raise CheckerFault("solver error on %s: %s" % (r["name"], str(r.get("log"))[:500]))
            self.failed_obligation(r, byname[r["name"]], owner[r["name"]], concrete_cfg)
        for s in res[:3]:
            self.samples.append({"obligation": s["name"], "verdict": s["verdict"], "solver": s.get("solver"), "lemma_instances": s.get("n_lemmas")})
        return res

    def lemmas(self, names):
        """pure-specification lemmas over contracts (LEMMAS in the contract files)"""
        eng = self.engine
        obls = []
        for n in names:
            obls.extend(eng.verify_lemma(n))
        res = discharge(obls, timeout=self.timeout(), engine=eng)
        self.obl_results.extend(res)
        for r in res:
            if r["kind"] == "reach":
                continue
            if r["verdict"] != "unsat":
                self.findings.append(Finding("obligation", r["name"], "lemma %s not discharged (%s)" % (r["name"], r["verdict"]), {"obligation": r["name"], "solver_log": [list(map(str, x)) for x in r.get("log", [])]}, None, False))

    def failed_obligation(self, r, obl, q, concrete_cfg):
        detail = "obligation %s not discharged (%s)" % (r["name"], r["verdict"])
        replay = {"obligation": r["name"], "function": q, "verdict": r["verdict"], "solver_log": [list(map(str, x)) for x in r.get("log", [])], "model": (r.get("model") or "")[:4000], "line": obl.line}
        wit = None
        found = False
        cfg = concrete_cfg.get(q)
        tried = []
        if cfg and cfg.get("searcher"):
            # a search written for this kind of function (real objects of the repository as arguments)
            hit = cfg["searcher"](q, self.engine.contracts.get(q))
            tried.append(q)
            if hit is not None:
                replay["failing_input"] = hit.args
                replay["observed"] = hit.detail
                replay["replayed_on"] = q
                wit = json.dumps(hit.args, sort_keys=True, default=str)[:200]
                found = True
        elif cfg:
            for target in [q] + list(cfg.get("also", [])):
                hit = self.search(target, concrete_cfg.get(target, cfg), n=cfg.get("n_search", 4000))
                tried.append(target)
                if hit is not None:
                    replay["failing_input"] = hit.args
                    replay["observed"] = hit.detail
                    replay["replayed_on"] = target
                    replay["how_to_rerun"] = "cd /verif && /venv/bin/python -m pyvc.replay %s '<failing_input json>'" % target
                    wit = json.dumps(hit.args, sort_keys=True, default=str)[:200]
                    found = True
                    break
        replay["search_targets"] = tried
        self.findings.append(Finding("obligation", r["name"], detail, replay, wit, found))

    def search(self, q, cfg, n):
        """random/enumerative search for an input on which the REAL function violates its contract"""
        ct = self.engine.contracts.get(q)
        if ct is None or cfg is None:
            return None
        f = self.engine.repo.func(q)
        names = [a.arg for a in f[2].args.args]
        types = dict(ct.get("types", {}))
        if "self" in names and "self" not in types:
            types["self"] = "obj:" + q.rsplit(".", 1)[0]
        gen = cfg["gen"]
        for i in range(n):
            size = 1 + (i % 7)
            try:
                args = gen.args_for(names, types, size)
            except KeyError:
                return None
            out = concrete.check_call(q, ct, args)
            if out.status in ("post-fail", "raised"):
                return out
        return None

    def crosscheck(self, quals, concrete_cfg, n):
        """CPython cross-check of every contract on the real function."""
        evals = 0
        nontrivial = 0
        for q in quals:
            cfg = concrete_cfg.get(q)
            ct = self.engine.contracts.get(q)
            if cfg is None or ct is None:
                continue
            f = self.engine.repo.func(q)
            names = [a.arg for a in f[2].args.args]
            types = dict(ct.get("types", {}))
            if "self" in names and "self" not in types:
                types["self"] = "obj:" + q.rsplit(".", 1)[0]
            gen = cfg["gen"]
            seen = set()
            for i in range(n):
                try:
                    args = gen.args_for(names, types, 1 + (i % 7))
                except KeyError:
                    break
                key = repr(concrete.repr_args(args))
                out = concrete.check_call(q, ct, args)
                evals += 1
                if out.status == "ok" and key not in seen:
                    seen.add(key)
                    nontrivial += 1
                if out.status in ("post-fail", "raised"):
                    already = any(fd.kind == "obligation" and fd.replay.get("function") == q for fd in self.findings)
                    if not already:
                        proved = all(r["verdict"] == "unsat" for r in self.obl_results if r["name"].startswith(q + "#") and r["kind"] != "reach")
                        if proved and q not in self.stale:
                            raise CheckerFault("contract of %s discharged symbolically but fails concretely on %r: %s" % (q, out.args, out.detail))
                        self.findings.append(Finding("crosscheck", q, out.detail, {"function": q, "failing_input": out.args, "observed": out.detail}, json.dumps(out.args, sort_keys=True, default=str)[:200]))
                    break
                if out.status == "spec-error":
                    raise CheckerFault("spec error in %s: %s" % (q, out.detail))
        self.bounded.setdefault("crosscheck", {"evaluations": 0, "distinct_nontrivial": 0})
        self.bounded["crosscheck"]["evaluations"] += evals
        self.bounded["crosscheck"]["distinct_nontrivial"] += nontrivial
        self.bounded["crosscheck"]["rule"] = "type-driven random arguments for each function under contract; non-trivial = precondition held and the argument tuple was not seen before"

    # ------------------------------------------------------- known findings
    def load_known(self):
        p = os.path.join(VERIF, "known_findings.json")
        if not os.path.exists(p):
            return []
        return [k for k in json.load(open(p)).get("findings", []) if k.get("property") == self.pid and k.get("status", "open") == "open"]

    # -------------------------------------------------------------- finish
    def finish(self, coverage_extra=None):
        known = self.load_known()
        violations = []
        for f in self.findings:
            k = match_known(f, known)
            if k is not None:
                print("KNOWN-FINDING: property=%s %s" % (self.pid, k["what"]))
                continue
            violations.append(f)
        os.makedirs(os.path.join(VERIF, "replay", self.pid), exist_ok=True)
        lines = []
        for i, f in enumerate(violations):
            path = os.path.join(VERIF, "replay", self.pid, "violation_%d.json" % i)
            rep = dict(f.replay)
            rep.update({"property": self.pid, "kind": f.kind, "name": f.name, "detail": f.detail})
            with open(path, "w") as fh:
                json.dump(rep, fh, indent=1, default=str)
            line = "VIOLATION property=%s replay=%s" % (self.pid, path)
            if not f.found_input:
                line += " obligation=%s no-failing-input-found" % f.name
            lines.append(line)
        self.write_evidence(len(violations), coverage_extra or {})
        for l in lines:
            print(l)
        nob = len([r for r in self.obl_results if r["kind"] != "reach"])
        nd = len([r for r in self.obl_results if r["kind"] != "reach" and r["verdict"] == "unsat"])
        print("%s: %d/%d obligations discharged, %d functions under contract (%d stale), bounded=%s, violations=%d, %.1fs" % (self.pid, nd, nob, len(self.functions), len(self.stale), {k: v.get("evaluations") for k, v in self.bounded.items()}, len(violations), time.time() - self.t0))
        return 1 if violations else 0

    def write_evidence(self, nviol, extra):
        res = [r for r in self.obl_results if r["kind"] != "reach"]
        by_solver = {}
        secs = 0.0
        for r in res:
            if r["verdict"] == "unsat":
                by_solver[r["solver"]] = by_solver.get(r["solver"], 0) + 1
            secs += r.get("seconds", 0) or 0
        cov = {
            "obligations": len(res),
            "discharged": len([r for r in res if r["verdict"] == "unsat"]),
            "checker_cmd": "/venv/bin/python /verif/check %s --tier %s  (pyvc: python ast of /repo/vsg -> SMT-LIB -> /usr/bin/cvc5 --strings-exp | z3-new | /usr/bin/z3)" % (self.pid, self.tier),
            "trusted_base": self.trusted + SOLVER_TRUST,
            "discharged_by_solver": by_solver,
            "solver_seconds": round(secs, 2),
            "reach_checks": len([r for r in self.obl_results if r["kind"] == "reach"]),
            "functions_under_contract": self.functions,
            "stale_proofs": self.stale,
            "bounded": self.bounded,
            "samples": self.samples[:6] or [{"note": "no obligations in this run"}],
            "evaluations": sum(v.get("evaluations", 0) for v in self.bounded.values()),
            "distinct_nontrivial": sum(v.get("distinct_nontrivial", 0) for v in self.bounded.values()),
            "rule": "; ".join("%s: %s" % (k, v.get("rule", "")) for k, v in self.bounded.items()),
        }
        cov.update(self.extra)
        cov.update(extra)
        if "explanation" not in cov:
            cov["explanation"] = "see DESIGN.md"
        ev = {
            "property_id": self.pid,
            "tier": self.tier,
            "seed": self.seed,
            "level": self.level,
            "coverage": cov,
            "assumptions": self.assumptions + self.notes,
            "wall_s": round(time.time() - self.t0, 2),
            "violations": nviol,
        }
        os.makedirs(os.path.join(VERIF, "evidence"), exist_ok=True)
        with open(os.path.join(VERIF, "evidence", self.pid + ".json"), "w") as fh:
            json.dump(ev, fh, indent=1, default=str)


def match_known(f, known):
    for k in known:
        if k.get("name") and k["name"] != f.name:
            continue
        w = k.get("witness")
        if w and (f.witness is None or w not in f.witness):
            continue
        return k
    return None


class CheckerFault(Exception):
    pass


def main(run):
    try:
        rc = run()
    except CheckerFault as e:
        print("CHECKER-FAULT: %s" % e)
        sys.exit(3)
    except Exception:
        traceback.print_exc()
        print("CHECKER-FAULT: unexpected exception in the checker")
        sys.exit(3)
    sys.exit(rc)


def run_selftest(check, mutant_files, select):
    """thorough tier: every seeded property-breaking mutant of the verified functions must fail an obligation
    (guards against a vacuous / unsound engine).  A surviving mutant is a checker fault."""
    import importlib.util
    import shutil

    from . import mutate

    results = []
    for mf in mutant_files:
        spec = importlib.util.spec_from_file_location("m", os.path.join(VERIF, "selftest", mf))
        m = importlib.util.module_from_spec(spec)
        spec.loader.exec_module(m)
        for name, rel, old, new in m.MUTANTS:
            d = mutate.scratch_copy(check.engine.repo.root)
            try:
                mutate.apply(d, rel, old, new)
                eng = Engine(repo_root=d)
                obls = []
                rejected = []
                for q in select(eng):
                    r = eng.verify_function(q)
                    if r["status"] != "ok":
                        rejected.append(q)
                    obls += r["obligations"]
                res = discharge(obls, timeout=20, engine=eng)
                bad = [r for r in res if r["kind"] != "reach" and r["verdict"] != "unsat"]
                results.append({"mutant": name, "failed_obligations": len(bad), "rejected": rejected, "first": bad[0]["name"] if bad else None})
            finally:
                shutil.rmtree(d, ignore_errors=True)
    expected_pass = set(getattr(m, "BENIGN", []))
    for r in results:
        benign = r["mutant"].endswith("-ok")
        if not benign and r["failed_obligations"] == 0 and not r["rejected"]:
            raise CheckerFault("seeded mutant %s was not detected" % r["mutant"])
        if benign and r["failed_obligations"] > 0:
            raise CheckerFault("benign mutant %s raised an alarm (%s)" % (r["mutant"], r["first"]))
    check.extra.setdefault("selftest_mutants", []).extend(results)
    return results
