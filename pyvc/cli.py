# -*- coding: utf-8 -*-
import sys
import time

from .engine import Engine, discharge


def main(argv):
    timeout = 10
    quals = []
    show = False
    noretry = False
    for a in argv:
        if a.startswith("--timeout="):
            timeout = int(a.split("=")[1])
        elif a == "--no-retry":
            noretry = True
        elif a == "--show":
            show = True
        else:
            quals.append(a)
    eng = Engine()
    if not quals or quals == ["all"]:
        quals = sorted(eng.contracts)
    elif len(quals) == 1 and quals[0].endswith("*"):
        quals = sorted(q for q in eng.contracts if q.startswith(quals[0][:-1]) and not eng.contracts[q].get("trusted"))
    allobls = []
    t0 = time.time()
    for q in quals:
        r = eng.verify_function(q)
        if r["status"] != "ok":
            print("REJECTED %s: %s" % (q, r["reason"]))
            continue
        print("%-70s %3d obligations  inlined=%s" % (q, len(r["obligations"]), ",".join(x.split(".")[-1] for x in r.get("inlined", []))))
        allobls.extend(r["obligations"])
    print("generated %d obligations in %.1fs" % (len(allobls), time.time() - t0))
    res = discharge(allobls, timeout=timeout, engine=eng)
    # an obligation the loaded pool left undecided is retried alone with a larger budget (as the checks do)
    for i, r in enumerate(res):
        ok = (r["verdict"] == "unsat") if r["kind"] != "reach" else (r["verdict"] in ("sat", "unknown"))
        if not ok and not noretry and r["verdict"] in ("unknown", "timeout"):
            r2 = discharge([allobls[i]], timeout=max(60, timeout * 3), workers=1, engine=eng)[0]
            r2["retried"] = True
            res[i] = r2
    bad = 0
    for r in res:
        v = r["verdict"]
        ok = (v == "unsat") if r["kind"] != "reach" else (v in ("sat", "unknown"))
        if not ok:
            bad += 1
            print("  %-8s %s  %s" % (v, r["name"], str(r.get("log"))[:300]))
            if v == "error":
                print(r["error"])
            if show and "query" in r:
                import os
                os.makedirs("/tmp/pyvc_dump", exist_ok=True)
                fn = "/tmp/pyvc_dump/" + "".join(c if c.isalnum() else "_" for c in r["name"]) + ".smt2"
                open(fn, "w").write(r["query"] + "\n; " + str(r.get("model")))
                print("   dumped", fn)
    for r in res:
        if r.get("wall", 0) > 3:
            print("  slow %.1fs %s lemmas=%s size=%s %s" % (r["wall"], r["name"], r.get("n_lemmas"), r.get("query_size"), r.get("log")))
    print("%d/%d ok, wall %.1fs" % (len(res) - bad, len(res), time.time() - t0))


if __name__ == "__main__":
    main(sys.argv[1:])
