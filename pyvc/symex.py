# -*- coding: utf-8 -*-
"""pyvc symbolic executor: Python AST of the real function + sidecar contract -> obligations.

Forward symbolic execution, path splitting at branches, loops cut by invariants, calls
replaced by callee contracts (or inlined when the callee is loop-free and has no contract).
Every construct outside the subset raises Unsupported: the function is then *rejected*
(reported, never silently skipped).
"""
import ast
import itertools

from . import terms as tm
from .terms import (
    BOOL,
    FALSE,
    INT,
    REF,
    STR,
    TRUE,
    VAL,
    Add,
    And,
    App,
    B,
    Concat,
    Const,
    Contains,
    Empty,
    Eq,
    Extract,
    Ge,
    Gt,
    I,
    Implies,
    Ite,
    Le,
    Len,
    Lt,
    Mul,
    Ne,
    Neg,
    Not,
    Nth,
    Or,
    PrefixOf,
    PySlice,
    S,
    Select,
    Seq,
    Store,
    Sub,
    SuffixOf,
    T,
    Unit,
    norm_index,
)
from .values import NONE, ClassParamV, ClassV, DictV, FuncV, IterV, ListV, ModuleV, NoneV, ObjV, OptV, RecV, TupleV, Type, parse_type


class Unsupported(Exception):
    pass


class ForkResult(Exception):
    """an inlined call that is the whole value of a statement has several exits: the statement forks instead of merging"""

    def __init__(self, outs):
        self.outs = outs


class DeadPath(Exception):
    """the current path ends here (an obligation that it is unreachable / raises has been recorded)"""


def split_goal(t, depth=0):
    """conjuncts of a goal, distributing over implications: (a => (b and c)) -> [a => b, a => c]"""
    if depth > 3:
        return [t]
    if t.op == "and":
        out = []
        for a in t.args:
            out.extend(split_goal(a, depth + 1))
        return out
    if t.op == "=>":
        return [Implies(t.args[0], g) for g in split_goal(t.args[1], depth + 1)]
    return [t]


def resimplify(t):
    """rebuild select-over-store redexes that a substitution created"""
    if not isinstance(t, T) or t.op in ("#int", "#str", "#bool", "#const", "#empty"):
        return t
    args = tuple(resimplify(a) if isinstance(a, T) else a for a in t.args)
    if t.op == "select" and args[0].op == "store" and str(args[0].args[1]) == str(args[1]):
        return args[0].args[2]
    if all(a is b for a, b in zip(args, t.args)):
        return t
    return T(t.op, args, t.sort)


def split_append(k, rng, body):
    """forall k in [0, len(X ++ [e])): P(nth(X ++ [e], k))   ==   (forall k in [0, len(X)): P(nth(X, k)))  and  P(e) at k = len(X).
    The second conjunct then speaks about the appended element itself (syntactically), which is what the lemma rules match on."""
    if rng.op != "and" or len(rng.args) != 2:
        return None
    lo, hi = rng.args
    if not (lo.op == "<=" and lo.args[0].op == "#int" and lo.args[0].val == 0 and str(lo.args[1]) == str(k)):
        return None
    if not (hi.op == "<" and str(hi.args[0]) == str(k) and hi.args[1].op == "seq.len"):
        return None
    C = hi.args[1].args[0]
    if C.op != "seq.++" or C.args[-1].op != "seq.unit":
        return None
    X = Concat(*C.args[:-1]) if len(C.args) > 2 else C.args[0]
    e = C.args[-1].args[0]
    body1 = tm.subst_term(body, Nth(C, k), Nth(X, k))
    if str(C) in str(body1):
        return None  # the appended list is used other than through its k-th element
    first = T("#forall", (k, And(lo, Lt(k, Len(X))), body1), BOOL)
    at = tm.subst(body, {k.args[0]: Len(X)})
    last = resimplify(tm.subst_term(at, Nth(C, Len(X)), e))
    if str(C) in str(last):
        return None
    return first, last


def split_adjacent(k, rng, body):
    """forall k in [0, len(X ++ [e]) - 1): P(C[k], C[k + 1])   ==   (forall k in [0, len(X) - 1): P(X[k], X[k + 1]))  and
    (len(X) >= 1  =>  P(X[len(X) - 1], e)):  the adjacent-pairs shape of 'the list is ascending' after an append"""
    if rng.op != "and" or len(rng.args) != 2:
        return None
    lo, hi = rng.args
    if not (lo.op == "<=" and lo.args[0].op == "#int" and lo.args[0].val == 0 and str(lo.args[1]) == str(k)):
        return None
    if not (hi.op == "<" and str(hi.args[0]) == str(k) and hi.args[1].op == "+" and len(hi.args[1].args) == 2):
        return None
    ln, m1 = hi.args[1].args
    if not (ln.op == "seq.len" and m1.op == "#int" and m1.val == -1):
        return None
    C = ln.args[0]
    if C.op != "seq.++" or C.args[-1].op != "seq.unit":
        return None
    X = Concat(*C.args[:-1]) if len(C.args) > 2 else C.args[0]
    e = C.args[-1].args[0]
    ph0 = Const("adj!0!%d" % next(_counter), e.sort)
    ph1 = Const("adj!1!%d" % next(_counter), e.sort)
    b = tm.subst_term(tm.subst_term(body, Nth(C, tm.Add(k, tm.I(1))), ph1), Nth(C, k), ph0)
    if str(C) in str(b):
        return None
    fb = tm.subst_term(tm.subst_term(b, ph0, Nth(X, k)), ph1, Nth(X, tm.Add(k, tm.I(1))))
    first = T("#forall", (k, And(lo, Lt(k, tm.Add(Len(X), tm.I(-1)))), fb), BOOL)
    at = tm.subst(b, {k.args[0]: tm.Sub(Len(X), tm.I(1))})
    last = resimplify(tm.subst_term(tm.subst_term(at, ph0, Nth(X, tm.Sub(Len(X), tm.I(1)))), ph1, e))
    return first, Implies(tm.Le(tm.I(1), Len(X)), last)


def skolemize(t):
    """drop universal binders in positive positions (bound names are globally unique constants)"""
    if t.op == "#forall":
        k, rng, body = t.args
        sp = split_append(k, rng, body) or split_adjacent(k, rng, body)
        if sp is not None:
            return And(skolemize(sp[0]), skolemize(sp[1]))
        m = {k.args[0]: Const("%s_sk%d" % (k.args[0].split("!")[0], next(_counter)), INT)}
        return Implies(tm.subst(rng, m), skolemize(tm.subst(body, m)))
    if t.op == "and":
        return And(*[skolemize(a) for a in t.args])
    if t.op == "=>":
        return Implies(t.args[0], skolemize(t.args[1]))
    return t


class DynClassV(object):
    """x.__class__ of an object whose dynamic class is unknown"""

    def __init__(self, term):
        self.term = term


class Obl(object):
    def __init__(self, name, assumptions, goal, kind, func, node=None):
        self.name = name
        self.assumptions = list(assumptions)
        self.goal = goal
        self.kind = kind
        self.func = func
        self.line = getattr(node, "lineno", None)
        self.result = None


EXC_PARENTS = {
    "IndexError": "LookupError",
    "KeyError": "LookupError",
    "LookupError": "Exception",
    "TypeError": "Exception",
    "AttributeError": "Exception",
    "UnboundLocalError": "NameError",
    "NameError": "Exception",
    "ZeroDivisionError": "Exception",
    "ValueError": "Exception",
    "PermissionError": "OSError",
    "FileNotFoundError": "OSError",
    "OSError": "Exception",
    "ClassifyError": "Exception",
    "ConfigurationError": "Exception",
    "Exception": "BaseException",
    "BaseException": None,
}


def exc_matches(exc, handler):
    if handler is None:
        return True
    while exc is not None:
        if exc == handler:
            return True
        exc = EXC_PARENTS.get(exc)
    return False


class State(object):
    def __init__(self):
        self.env = {}
        self.cells = {}
        self.heap = {}
        self.pc = []
        self.guards = []
        self.pending = []  # [(cond term, exc name)] raised by the statement under evaluation
        self.effect = False
        self.ghost = {}

    def fork(self):
        s = State()
        s.env = dict(self.env)
        s.cells = dict(self.cells)
        s.heap = dict(self.heap)
        s.pc = list(self.pc)
        s.guards = list(self.guards)
        s.pending = list(self.pending)
        s.effect = self.effect
        s.ghost = dict(self.ghost)
        return s

    def assume(self, t):
        if t.op == "#bool" and t.val:
            return
        self.pc.append(t)

    def ctx(self):
        return self.pc + self.guards


class Completion(object):
    def __init__(self, kind, st, value=None, exc=None):
        self.kind = kind  # normal return break continue raise
        self.st = st
        self.value = value
        self.exc = exc


_counter = itertools.count(1)

# uninterpreted spec / library functions: name -> (arg sorts, result sort)
UFS = {
    "J": ([Seq(STR)], STR),
    "isspace": ([STR], BOOL),
    "isdigit": ([STR], BOOL),
    "lower": ([STR], STR),
    "upper": ([STR], STR),
    "split": ([STR, STR], Seq(STR)),
    "wsplit": ([STR], Seq(STR)),
    "rstrip": ([STR], STR),
    "strip": ([STR], STR),
    "lstrip": ([STR], STR),
    "str_of_int": ([INT], STR),
    "clsname": ([REF], STR),
}


def rev_uf(sort):
    name = "rev_" + "".join(c for c in tm.sort_str(sort) if c.isalnum())
    UFS[name] = ([sort], sort)
    return name


class Run(object):
    """verification of one function"""

    def __init__(self, engine, qual):
        self.engine = engine
        self.qual = qual
        # "<function>@impl": a contract for the BODY of that function only (e.g. the default implementation of a virtual
        # method whose dispatching contract is an abstract stub); never used at call sites
        fq = qual.split("@")[0]
        r = engine.repo.func(fq)
        if r is None:
            raise Unsupported("function not found: " + qual)
        self.module, self.inner, self.fdef = r
        self.cls = self.inner.split(".")[0] if "." in self.inner else None
        self.contract = engine.contracts.get(qual, {})
        self.obls = []
        self.loop_ord = 0
        self.site_ord = {}
        self.inlined = set()
        self.called = set()
        self.notes = []
        self.try_depth = []  # stack of handler-type lists
        self.spec_mode = 0
        self.old_state = None
        self.result_value = None
        self.in_loop_effects = None
        self.entry_states = []
        self.fork_node = None
        self._loop_ids = None

    def _init_bare(self, engine, qual):
        """a Run without a function: used to evaluate pure-spec lemmas"""
        self.engine = engine
        self.qual = qual
        self.module = engine.repo.module("vsg.rule")
        self.inner = None
        self.fdef = None
        self.cls = None
        self.contract = {}
        self.obls = []
        self.loop_ord = 0
        self.site_ord = {}
        self.inlined = set()
        self.called = set()
        self.notes = []
        self.try_depth = []
        self.spec_mode = 0
        self.old_state = None
        self.result_value = None
        self.in_loop_effects = None
        self.entry_states = []
        self.fork_node = None
        self._loop_ids = None

    # ------------------------------------------------------------ utilities
    def fresh(self, base, sort):
        base = "".join(c if c.isalnum() or c == "_" else "_" for c in base)
        return Const("%s!%d" % (base, next(_counter)), sort)

    def site(self, key):
        self.site_ord[key] = self.site_ord.get(key, 0) + 1
        return self.site_ord[key]

    def new_cell(self, st, val, backing=()):
        cid = next(_counter)
        st.cells[cid] = (val, frozenset(backing))
        return cid

    def fresh_value(self, st, ty, base):
        """a fresh symbolic value of static type ty"""
        k = ty.kind
        if k in ("int", "bool", "str", "val"):
            return self.fresh(base, ty.sort())
        if k == "obj":
            return ObjV(self.fresh(base, REF), ty.arg)
        if k == "cls":
            return ClassParamV(ty.arg)
        if k == "list":
            cid = self.new_cell(st, self.fresh(base, ty.sort()))
            return ListV(cid, ty.arg)
        if k == "opt":
            return OptV(self.fresh(base + "_isnone", BOOL), self.fresh_value(st, ty.arg, base))
        if k == "none":
            return NONE
        if k == "tuple":
            return TupleV([self.fresh_value(st, t, base + "_%d" % i) for i, t in enumerate(ty.arg)])
        if k == "map":
            kt, vt = ty.arg
            return self.fresh(base, tm.Arr(kt.sort(), vt.sort()))
        if k == "rec":
            fields = {}
            for name, opt, fty in ty.arg:
                fields[name] = (self.fresh(base + "_has_" + name, BOOL) if opt else TRUE, self.fresh_value(st, fty, base + "_" + name))
            return RecV(fields)
        if k == "dict":
            kt, vt = ty.arg
            return DictV(
                self.fresh(base + "_keys", tm.Arr(kt.sort(), BOOL)),
                self.fresh(base + "_vals", tm.Arr(kt.sort(), self.type_sort(vt))),
                kt.sort(),
                vt,
            )
        raise Unsupported("fresh value of type %r" % ty)

    def type_sort(self, ty):
        return ty.sort()

    def wrap(self, st, term, ty, backing=()):
        """wrap a raw term of static type ty into a value"""
        k = ty.kind
        if k in ("int", "bool", "str", "val", "map"):
            return term
        if k == "obj":
            return ObjV(term, ty.arg)
        if k == "list":
            return ListV(self.new_cell(st, term, backing), ty.arg)
        raise Unsupported("wrap %r" % ty)

    def raw(self, st, v):
        """value -> raw term"""
        if isinstance(v, T):
            return v
        if isinstance(v, ObjV):
            return v.term
        if isinstance(v, ListV):
            val = st.cells[v.cell][0]
            if val is None:
                raise Unsupported("untyped empty list used as value")
            return val
        if isinstance(v, OptV) and self.spec_mode:
            return self.raw(st, v.val)
        raise Unsupported("no raw term for %r" % (v,))

    def type_of(self, st, v):
        if isinstance(v, T):
            return {INT: Type("int"), BOOL: Type("bool"), STR: Type("str"), VAL: Type("val"), REF: Type("obj")}[v.sort]
        if isinstance(v, ObjV):
            return Type("obj", v.cls)
        if isinstance(v, ListV):
            return Type("list", v.elem)
        if isinstance(v, NoneV):
            return Type("none")
        if isinstance(v, OptV):
            return Type("opt", self.type_of(st, v.val))
        if isinstance(v, TupleV):
            return Type("tuple", [self.type_of(st, x) for x in v.items])
        raise Unsupported("type_of %r" % (v,))

    def field_info(self, cls, f):
        """(static type, heap key).  A field declared for a class gets its own heap array."""
        ft = self.engine.fields
        ov = self.contract.get("fields") if self.contract else None
        if ov:
            ft = dict(ft)
            ft.update(ov)
        for c in self.engine.mro(cls) if cls else []:
            if c + "." + f in ft:
                return parse_type(ft[c + "." + f]), c.split(".")[-1] + "__" + f
        if f in ft:
            return parse_type(ft[f]), f
        # a field nobody declared (e.g. one that a change to the code introduced): if the class' own __init__ initialises it with
        # a boolean / integer / string literal, that is its type
        for c in self.engine.mro(cls) if cls else []:
            ity = self.engine.init_literal_type(c, f)
            if ity:
                return parse_type(ity), c.split(".")[-1] + "__" + f
        raise Unsupported("no declared type for field %s (class %s)" % (f, cls))

    def field_type(self, cls, f):
        return self.field_info(cls, f)[0]

    def heap_arr(self, st, key, ty):
        pre = st.ghost.get("#heap_prefix", "H_")
        if key not in st.heap:
            st.heap[key] = Const("%s%s!0" % (pre, key), tm.Arr(REF, ty.sort() if ty.kind != "opt" else ty.arg.sort()))
            if ty.kind == "opt":
                st.heap[key + "?"] = Const("%s%s_isnone!0" % (pre, key), tm.Arr(REF, BOOL))
        reads = st.ghost.get("#reads")
        if reads is not None:
            reads.add(key)
            if ty.kind == "opt":
                reads.add(key + "?")
        return st.heap[key]

    # ---------------------------------------------------------- obligations
    def prove(self, st, goal, kind, node=None, label=""):
        if goal.op == "#bool" and goal.val:
            return
        goal = skolemize(goal)
        parts = split_goal(goal)
        if len(parts) > 1:
            # one obligation per conjunct: smaller, more stable queries
            n = self.site(kind + label)
            for i, g in enumerate(parts):
                name = "%s#%s%s@%d.%s" % (self.qual, kind, (":" + label) if label else "", n, chr(ord("a") + i) if i < 26 else str(i))
                self.obls.append(Obl(name, st.ctx(), g, kind, self.qual, node))
            st.assume(Implies(And(*st.guards), goal) if st.guards else goal)
            return
        n = self.site(kind + label)
        name = "%s#%s%s@%d" % (self.qual, kind, (":" + label) if label else "", n)
        self.obls.append(Obl(name, st.ctx(), goal, kind, self.qual, node))
        st.assume(Implies(And(*st.guards), goal) if st.guards else goal)

    def check(self, st, ok, exc, node=None, effect=None):
        """python operation that raises `exc` unless ok. effect(state): state change that accompanies the raise."""
        if self.spec_mode:
            return
        if ok.op == "#bool" and ok.val:
            return
        if st.guards:
            okg = Implies(And(*st.guards), ok)
        else:
            okg = ok
        handled = any(any(exc_matches(exc, h) for h in hs) for hs in self.try_depth)
        allowed = self.contract.get("raises", "nothing")
        if handled or (allowed != "nothing" and any(exc_matches(exc, a) for a in allowed)):
            if st.effect:
                raise Unsupported("operation may raise after a side effect within one statement (line %s)" % getattr(node, "lineno", "?"))
            st.pending.append((Not(okg), exc, effect))
            st.assume(okg)
        else:
            self.prove(st, ok, "no-raise", node, exc)

    # ------------------------------------------------------------- spec eval
    def spec(self, src, st, old=None, result=None, env=None):
        """evaluate a contract expression (python syntax) to a Bool/other term in state st"""
        node = ast.parse(src.strip(), mode="eval").body
        saved = (self.spec_mode, self.old_state, self.result_value)
        self.spec_mode += 1
        self.old_state = old if old is not None else self.old_state
        self.result_value = result if result is not None else self.result_value
        st2 = st
        if env is not None:
            st2 = st.fork()
            st2.env = env
            st2.guards = []
        try:
            v = self.ev(node, st2)
        finally:
            self.spec_mode, self.old_state, self.result_value = saved
        if env is not None:
            # spec evaluation must not have side effects; but it may allocate cells for reads
            # and it may have named sub-terms (slice bounds, indices): the defining equations of those fresh constants are
            # conservative and must reach the caller's path condition, or the names are unconstrained
            known = set(str(x) for x in st.pc)
            for f in st2.pc[len(st.pc) :] if len(st2.pc) >= len(st.pc) else []:
                g = f
                while g.op == "=>":
                    g = g.args[1]
                if g.op == "=" and g.args[0].op == "#const" and str(f) not in known and "!q" not in str(f):
                    # (a definition that mentions a bound variable of the formula being evaluated stays local to it)
                    st.pc.append(f)
            st.cells.update({k: c for k, c in st2.cells.items() if k not in st.cells})
            for k, h in st2.heap.items():
                if k not in st.heap:
                    st.heap[k] = h
        return v

    def spec_bool(self, src, st, **kw):
        v = self.spec(src, st, **kw)
        return self.truth(st, v)

    # ---------------------------------------------------------------- truth
    def truth(self, st, v):
        if isinstance(v, T):
            if v.sort == BOOL:
                return v
            if v.sort == INT:
                return Ne(v, I(0))
            if v.sort == STR:
                return Ne(v, S(""))
            if v.sort == REF:
                return TRUE
        if isinstance(v, ListV):
            return Ne(Len(self.raw(st, v)), I(0))
        if isinstance(v, NoneV):
            return FALSE
        if isinstance(v, OptV):
            return And(Not(v.isnone), self.truth(st, v.val))
        if isinstance(v, ObjV) and v.cls == "builtins.dict":
            # a dictionary is true iff it has a key
            return Ne(Len(self.dict_keyseq(st, v)), I(0))
        if isinstance(v, ObjV) and v.cls is None:
            # an opaque reference (a dictionary value, a boxed scalar): its truth value is not known
            UFS["truthy"] = ([REF], BOOL)
            return App("truthy", (v.term,), BOOL)
        if isinstance(v, ObjV):
            return TRUE  # an instance of a class without __bool__ / __len__
        if isinstance(v, FuncV):
            return TRUE  # a function or bound method object is always true
        if isinstance(v, RecV):
            return Or(*[p for p, x in v.fields.values()])
        raise Unsupported("truth of %r" % (v,))

    # ----------------------------------------------------------- expressions
    def ev(self, node, st):
        m = getattr(self, "ev_" + type(node).__name__, None)
        if m is None:
            raise Unsupported("expression %s (line %s)" % (type(node).__name__, getattr(node, "lineno", "?")))
        return m(node, st)

    def ev_Constant(self, node, st):
        v = node.value
        if v is None:
            return NONE
        if isinstance(v, bool):
            return B(v)
        if isinstance(v, int):
            return I(v)
        if isinstance(v, str):
            return S(v)
        raise Unsupported("constant %r" % (v,))

    def lift_const(self, st, v):
        if v is None:
            return NONE
        if isinstance(v, bool):
            return B(v)
        if isinstance(v, int):
            return I(v)
        if isinstance(v, str):
            return S(v)
        if isinstance(v, (list, tuple)):
            items = [self.lift_const(st, x) for x in v]
            if not items:
                return ListV(self.new_cell(st, None), None)
            ty = self.type_of(st, items[0])
            seq = Concat(*[Unit(self.raw(st, x)) for x in items])
            lv = ListV(self.new_cell(st, seq), ty)
            return lv
        raise Unsupported("module constant %r" % (v,))

    def ev_Name(self, node, st):
        n = node.id
        if n in st.env:
            return st.env[n]
        if self.spec_mode and n == "result":
            return self.result_value
        if n in st.ghost:
            return st.ghost[n]
        return self.resolve_global(n, st, node)

    def assigned_names(self):
        """names the function being executed (the verified one, or the callee being inlined) binds: its locals"""
        fdef = getattr(self, "cur_fdef", None) or self.fdef
        if fdef is None:
            return set()
        cache = self.__dict__.setdefault("_assigned_cache", {})
        if id(fdef) not in cache:
            out = set(a.arg for a in fdef.args.args)
            for sub in ast.walk(fdef):
                if isinstance(sub, ast.Name) and isinstance(sub.ctx, (ast.Store, ast.Del)):
                    out.add(sub.id)
            cache[id(fdef)] = out
        return cache[id(fdef)]

    def resolve_global(self, n, st, node=None):
        m = self.module
        if n in m.funcs:
            return FuncV(m.name + "." + n)
        if n in m.classes:
            return ClassV(m.name + "." + n)
        if n in m.consts:
            return self.lift_const(st, m.consts[n])
        if n in m.imports:
            r = self.engine.repo.resolve(m.imports[n])
            if r is None:
                return ModuleV(m.imports[n])
            if r[0] == "module":
                return ModuleV(r[1].name)
            if r[0] == "func":
                return FuncV(r[1].name + "." + r[2])
            if r[0] == "class":
                return ClassV(r[1].name + "." + r[2])
            if r[0] == "const":
                return self.lift_const(st, r[1])
        if n in ("len", "range", "enumerate", "zip", "isinstance", "int", "str", "print", "type", "list", "sorted", "min", "max", "bool", "reversed", "getattr", "open"):
            return FuncV("builtins." + n)
        if self.spec_mode and (n in self.engine.spec_funcs or n in self.engine.homs):
            return FuncV("spec." + n)
        if self.spec_mode and n in self.engine.spec_imports:
            return ModuleV(self.engine.spec_imports[n])
        if n in ("IndexError", "KeyError", "TypeError", "AttributeError", "PermissionError", "FileNotFoundError", "OSError", "Exception", "dict"):
            return ClassV("builtins." + n)
        if not self.spec_mode and node is not None and isinstance(getattr(node, "ctx", None), ast.Load) and n in self.assigned_names():
            # a local (a name the function assigns somewhere) that is not bound on this path: python raises UnboundLocalError
            self.check(st, FALSE, "UnboundLocalError", node)
            raise DeadPath()
        raise Unsupported("unbound name %s (line %s)" % (n, getattr(node, "lineno", "?")))

    def ev_Attribute(self, node, st):
        base = self.ev(node.value, st)
        return self.get_attr(base, node.attr, st, node)

    def get_attr(self, base, attr, st, node=None):
        if isinstance(base, ModuleV):
            r = None
            pm = self.engine.repo.module(base.name)
            if pm is not None and attr in pm.imports and (attr in pm.classes or self.engine.repo.module(base.name + "." + attr) is not None):
                # a package whose __init__ binds the name (from .x import x) shadows its sub-module of the same name
                r = self.engine.repo.resolve(pm.imports[attr])
            if r is None:
                r = self.engine.repo.resolve(base.name + "." + attr)
            if r is None:
                if base.name + "." + attr in self.engine.contracts:
                    return FuncV(base.name + "." + attr)
                return ModuleV(base.name + "." + attr)
            if r[0] == "module":
                return ModuleV(r[1].name)
            if r[0] == "func":
                return FuncV(r[1].name + "." + r[2])
            if r[0] == "class":
                return ClassV(r[1].name + "." + r[2])
            if r[0] == "const":
                return self.lift_const(st, r[1])
        if isinstance(base, DynClassV) and attr == "__name__":
            return App("clsname", (base.term,), STR)
        if isinstance(base, ObjV) and attr == "__class__":
            # the dynamic class of an object is not tracked: its name is an uninterpreted string
            return DynClassV(base.term)
        if isinstance(base, ObjV) and base.cls in ("builtins.dict", None) and attr in ("keys", "get"):
            return FuncV("method." + attr, bound=base)
        if isinstance(base, ObjV):
            # method?
            if base.cls:
                q = self.engine.find_method(base.cls, attr)
                if q:
                    return FuncV(q, bound=base)
                if base.cls + "." + attr in self.engine.contracts:
                    return FuncV(base.cls + "." + attr, bound=base)
            return self.read_field(st, base, attr, node)
        if isinstance(base, T) and base.sort == VAL:
            return FuncV("method." + attr, bound=self.val_as(st, base, STR, node))
        if isinstance(base, (T, ListV, DictV, RecV)):
            return FuncV("method." + attr, bound=base)
        if isinstance(base, OptV):
            # attribute access on an optional: raises AttributeError when None
            self.check(st, Not(base.isnone), "AttributeError", node)
            return self.get_attr(base.val, attr, st, node)
        if isinstance(base, NoneV):
            self.check(st, FALSE, "AttributeError", node)
            raise Unsupported("attribute of None")
        raise Unsupported("attribute %s of %r" % (attr, base))

    def read_field(self, st, obj, f, node=None):
        ty, hk = self.field_info(obj.cls, f)
        if ty.kind == "opt" and ty.arg.kind == "rec":
            flag = self.heap_arr(st, hk + "__isnone", Type("bool"))
            return OptV(Select(flag, obj.term), self.read_rec(st, obj, hk, ty.arg))
        if ty.kind == "rec":
            fields = {}
            for name, opt, fty in ty.arg:
                sub = self.heap_arr(st, hk + "__" + name, fty)
                if fty.kind == "opt":
                    val = OptV(Select(st.heap[hk + "__" + name + "?"], obj.term), self.wrap(st, Select(sub, obj.term), fty.arg))
                else:
                    val = self.wrap(st, Select(sub, obj.term), fty)
                fields[name] = (TRUE, val)
            return RecV(fields)
        arr = self.heap_arr(st, hk, ty)
        key = (obj.term, hk)
        if ty.kind == "list":
            for cid, (val, backing) in st.cells.items():
                if key in backing:
                    return ListV(cid, ty.arg)
            return ListV(self.new_cell(st, Select(arr, obj.term), [key]), ty.arg)
        if ty.kind == "opt":
            isn = Select(st.heap[hk + "?"], obj.term)
            if ty.arg.kind == "list":
                # the list inside an optional field is the field's own list: mutations through it are writes to the field
                for cid, (val, backing) in st.cells.items():
                    if key in backing:
                        return OptV(isn, ListV(cid, ty.arg.arg))
                return OptV(isn, ListV(self.new_cell(st, Select(arr, obj.term), [key]), ty.arg.arg))
            return OptV(isn, self.wrap(st, Select(arr, obj.term), ty.arg))
        return self.wrap(st, Select(arr, obj.term), ty)

    def read_rec(self, st, obj, hk, ty):
        fields = {}
        for name, opt, fty in ty.arg:
            sub = self.heap_arr(st, hk + "__" + name, fty)
            if fty.kind == "opt":
                val = OptV(Select(st.heap[hk + "__" + name + "?"], obj.term), self.wrap(st, Select(sub, obj.term), fty.arg))
            else:
                val = self.wrap(st, Select(sub, obj.term), fty)
            fields[name] = (TRUE, val)
        return RecV(fields)

    def write_field(self, st, obj, f, v, node=None):
        ty, hk = self.field_info(obj.cls, f)
        if ty.kind == "opt" and ty.arg.kind == "rec":
            flag = self.heap_arr(st, hk + "__isnone", Type("bool"))
            st.effect = True
            if isinstance(v, NoneV):
                st.heap[hk + "__isnone"] = Store(flag, obj.term, TRUE)
                return
            if isinstance(v, OptV):
                st.heap[hk + "__isnone"] = Store(flag, obj.term, v.isnone)
                v = v.val
            else:
                st.heap[hk + "__isnone"] = Store(flag, obj.term, FALSE)
            ty = ty.arg
        if ty.kind == "rec":
            if not isinstance(v, RecV):
                raise Unsupported("assigning a non-record to record field " + f)
            st.effect = True
            for name, opt, fty in ty.arg:
                sub = self.heap_arr(st, hk + "__" + name, fty)
                if name not in v.fields:
                    raise Unsupported("record field %s missing in assignment to %s" % (name, f))
                x = v.fields[name][1]
                if fty.kind == "opt":
                    if isinstance(x, NoneV):
                        st.heap[hk + "__" + name + "?"] = Store(st.heap[hk + "__" + name + "?"], obj.term, TRUE)
                    elif isinstance(x, OptV):
                        st.heap[hk + "__" + name + "?"] = Store(st.heap[hk + "__" + name + "?"], obj.term, x.isnone)
                        st.heap[hk + "__" + name] = Store(sub, obj.term, self.raw(st, x.val))
                    else:
                        st.heap[hk + "__" + name + "?"] = Store(st.heap[hk + "__" + name + "?"], obj.term, FALSE)
                        st.heap[hk + "__" + name] = Store(sub, obj.term, self.raw(st, x))
                else:
                    if isinstance(x, OptV):
                        self.prove(st, Not(x.isnone), "field-type", node, f + "." + name)
                        x = x.val
                    if isinstance(x, T) and x.sort == VAL and fty.sort() in (INT, STR):
                        x = self.val_as(st, x, fty.sort(), node)
                    st.heap[hk + "__" + name] = Store(sub, obj.term, self.raw(st, x))
            return
        arr = self.heap_arr(st, hk, ty)
        key = (obj.term, hk)
        st.effect = True
        # drop old backings for this location
        for cid, (val, backing) in list(st.cells.items()):
            if key in backing:
                st.cells[cid] = (val, backing - {key})
        if ty.kind == "list":
            if not isinstance(v, ListV):
                raise Unsupported("assigning non-list to list field " + f)
            val, backing = st.cells[v.cell]
            if val is None:
                val = Empty(ty.arg.sort())
            st.cells[v.cell] = (val, backing | {key})
            st.heap[hk] = Store(arr, obj.term, val)
            return
        if ty.kind == "opt":
            if isinstance(v, NoneV):
                st.heap[hk + "?"] = Store(st.heap[hk + "?"], obj.term, TRUE)
                return
            if isinstance(v, OptV):
                st.heap[hk + "?"] = Store(st.heap[hk + "?"], obj.term, v.isnone)
                st.heap[hk] = Store(arr, obj.term, self.raw(st, v.val))
                return
            st.heap[hk + "?"] = Store(st.heap[hk + "?"], obj.term, FALSE)
            st.heap[hk] = Store(arr, obj.term, self.raw(st, v))
            return
        if isinstance(v, NoneV):
            raise Unsupported("None stored into non-optional field " + f)
        if isinstance(v, OptV):
            # declared non-optional field: the stored value must not be None (type invariant of the field)
            self.prove(st, Not(v.isnone), "field-type", node, f)
            v = v.val
        st.heap[hk] = Store(arr, obj.term, self.raw(st, v))

    def set_cell(self, st, cid, val):
        old, backing = st.cells[cid]
        st.cells[cid] = (val, backing)
        st.effect = True
        for objt, hk in backing:
            st.heap[hk] = Store(st.heap[hk], objt, val)

    # ------------------------------------------------------------ subscripts
    def ev_Subscript(self, node, st):
        base = self.ev(node.value, st)
        if isinstance(base, T) and base.sort == VAL:
            base = self.val_as(st, base, STR, node)
        sl = node.slice
        if isinstance(sl, ast.Slice):
            if sl.step is not None:
                stepv = self.ev(sl.step, st)
                if isinstance(stepv, T) and stepv.op == "#int" and stepv.val == -1 and sl.lower is None and sl.upper is None:
                    return self.reversed_value(st, base)
                raise Unsupported("slice step")
            lo = self.ev(sl.lower, st) if sl.lower is not None else None
            hi = self.ev(sl.upper, st) if sl.upper is not None else None
            if not self.spec_mode and isinstance(base, ListV) and (isinstance(lo, OptV) or isinstance(hi, OptV)):
                # python: a bound that is None at run time is an omitted bound
                seq = self.raw(st, base)
                alts = [(TRUE, lo, hi)]
                if isinstance(lo, OptV):
                    alts = [(And(c, lo.isnone), None, h) for c, l, h in alts] + [(And(c, Not(lo.isnone)), lo.val, h) for c, l, h in alts]
                if isinstance(hi, OptV):
                    alts = [(And(c, hi.isnone), l, None) for c, l, h in alts] + [(And(c, Not(hi.isnone)), l, hi.val) for c, l, h in alts]
                out = None
                for c, l, h in reversed(alts):
                    t = PySlice(seq, l, h)
                    out = t if out is None else Ite(c, t, out)
                return ListV(self.new_cell(st, out), base.elem)
            if isinstance(lo, OptV):
                # in the contracts an optional bound is used after an `is not None` conjunct: take the payload, obliging the
                # path to prove it is not None
                self.check(st, Not(lo.isnone), "TypeError", node)
                lo = lo.val
            if isinstance(hi, OptV):
                self.check(st, Not(hi.isnone), "TypeError", node)
                hi = hi.val
            if isinstance(hi, NoneV):
                hi = None
            if isinstance(lo, NoneV):
                lo = None
            if isinstance(base, ListV):
                seq = self.raw(st, base)
                return ListV(self.new_cell(st, self.named_slice(st, seq, lo, hi)), base.elem)
            if isinstance(base, T) and base.sort == STR:
                return self.named_slice(st, base, lo, hi)
            raise Unsupported("slice of %r" % (base,))
        idx = self.ev(sl, st)
        return self.index(st, base, idx, node)

    def named_slice(self, st, seq, lo, hi):
        """python slice; symbolic (clamped) bounds get names so that terms stay small"""
        # a bound the enclosing conjunction / the path condition states to be non-negative (0 <= b) needs no clamp
        known = set(str(g) for g in st.guards) | set(str(g) for g in st.pc)

        def nonneg(b):
            if tm.syn_nonneg(b) or str(Le(I(0), b)) in known or str(Ge(b, I(0))) in known:
                return True
            return b.op == "+" and all(nonneg(a) for a in b.args)

        t = PySlice(seq, lo, hi, nonneg)
        if t.op not in ("seq.extract", "str.substr"):
            return t
        x, a, n = t.args
        if "!q" in str(a) or "!q" in str(n):
            return t  # inside a quantified formula: a name for a bound-variable term would escape its binder
        if a.op not in ("#int", "#const"):
            c = self.fresh("lo", INT)
            st.assume(Eq(c, a))
            # length was computed as hi - lo with the unnamed lo: rebuild
            n = tm.subst_term(n, a, c)
            a = c
        if n.op not in ("#int", "#const") and len(str(n)) > 40:
            c = self.fresh("n", INT)
            st.assume(Eq(c, n))
            n = c
        return Extract(x, a, n)

    def reversed_value(self, st, base):
        if isinstance(base, ListV):
            seq = self.raw(st, base)
            n = Len(seq)
            return IterV(n, lambda st2, i: self.wrap_elem(st2, Nth(seq, Sub(Sub(n, I(1)), i)), base.elem), None)
        raise Unsupported("reverse of %r" % (base,))

    def wrap_elem(self, st, term, ety):
        if ety is None:
            raise Unsupported("element of untyped list")
        return self.wrap(st, term, ety)

    def index(self, st, base, idx, node=None):
        if isinstance(idx, OptV) and isinstance(base, ListV):
            # a list index that may be None: TypeError when it is
            self.check(st, Not(idx.isnone), "TypeError", node)
            idx = idx.val
        if isinstance(base, ListV):
            seq = self.raw(st, base) if st.cells[base.cell][0] is not None else None
            if seq is None:
                self.check(st, FALSE, "IndexError", node)
                raise Unsupported("index into untyped empty list")
            n = Len(seq)
            if self.spec_mode:
                # spec indexing is total and does not wrap, except for negative literals
                if idx.op == "#int" and idx.val < 0:
                    return self.wrap_elem(st, Nth(seq, norm_index(seq, idx)), base.elem)
                return self.wrap_elem(st, Nth(seq, idx), base.elem)
            self.check(st, And(Le(Neg(n), idx), Lt(idx, n)), "IndexError", node)
            return self.wrap_elem(st, Nth(seq, norm_index(seq, idx)), base.elem)
        if isinstance(base, T) and base.sort == STR:
            n = Len(base)
            if self.spec_mode and not (idx.op == "#int" and idx.val < 0):
                return Nth(base, idx)
            self.check(st, And(Le(Neg(n), idx), Lt(idx, n)), "IndexError", node)
            return Nth(base, norm_index(base, idx))
        if isinstance(base, TupleV):
            if isinstance(idx, T) and idx.op == "#int":
                return base.items[idx.val]
        if isinstance(base, RecV):
            if isinstance(idx, T) and idx.op == "#str":
                if idx.val in base.fields:
                    present, val = base.fields[idx.val]
                    self.check(st, present, "KeyError", node)
                    return val
                self.check(st, FALSE, "KeyError", node)
                raise Unsupported("missing record key " + idx.val)
        if isinstance(base, OptV):
            self.check(st, Not(base.isnone), "TypeError", node)
            return self.index(st, base.val, idx, node)
        if isinstance(base, DictV):
            k = self.raw(st, idx)
            self.check(st, Select(base.keys, k), "KeyError", node)
            return self.wrap(st, Select(base.vals, k), base.vtype)
        if isinstance(base, ObjV) and base.cls in ("builtins.dict", None) and isinstance(idx, T) and idx.sort == STR:
            d = self.as_dict(st, base, node)
            K, V = self.dict_arrays(st, d)
            if not self.spec_mode:
                self.check(st, Select(K, idx), "KeyError", node)
            return ObjV(Select(V, idx), None)
        if isinstance(base, IterV) and base.seq is None:
            return base.elem(st, idx)
        if isinstance(base, T) and isinstance(base.sort, tuple) and base.sort[0] == "Array":
            return Select(base, self.raw(st, idx))
        raise Unsupported("index of %r" % (base,))

    # -------------------------------------------------------------- operators
    def ev_UnaryOp(self, node, st):
        v = self.ev(node.operand, st)
        if isinstance(node.op, ast.Not):
            return Not(self.truth(st, v))
        if isinstance(node.op, ast.USub):
            return Neg(v)
        raise Unsupported("unary op")

    def ev_BoolOp(self, node, st):
        vals = []
        pushed = 0
        try:
            for sub in node.values:
                v = self.truth(st, self.ev(sub, st))
                vals.append(v)
                st.guards.append(v if isinstance(node.op, ast.And) else Not(v))
                pushed += 1
        finally:
            for _ in range(pushed):
                st.guards.pop()
        return And(*vals) if isinstance(node.op, ast.And) else Or(*vals)

    def ev_IfExp(self, node, st):
        c = self.truth(st, self.ev(node.test, st))
        st.guards.append(c)
        a = self.ev(node.body, st)
        st.guards.pop()
        st.guards.append(Not(c))
        b = self.ev(node.orelse, st)
        st.guards.pop()
        # a test the path condition already decides selects its branch (keeps terms syntactically canonical)
        known = set(str(x) for x in st.pc) | set(str(x) for x in st.guards)
        if str(c) in known:
            return a
        if str(Not(c)) in known:
            return b
        # `x if x is not None else d`: the optional is unwrapped on the branch on which it is proved not to be None
        if isinstance(a, OptV) and not isinstance(b, (OptV, NoneV)):
            st.guards.append(c)
            self.check(st, Not(a.isnone), "TypeError", node)
            st.guards.pop()
            a = a.val
        if isinstance(b, OptV) and not isinstance(a, (OptV, NoneV)):
            st.guards.append(Not(c))
            self.check(st, Not(b.isnone), "TypeError", node)
            st.guards.pop()
            b = b.val
        if isinstance(a, T) and isinstance(b, T):
            return Ite(c, a, b)
        if isinstance(a, ListV) and isinstance(b, ListV):
            va, vb = st.cells[a.cell][0], st.cells[b.cell][0]
            if va is None and vb is None:
                return a
            if va is None:
                va = Empty(vb.sort[1])
            if vb is None:
                vb = Empty(va.sort[1])
            return ListV(self.new_cell(st, Ite(c, va, vb)), a.elem or b.elem)
        raise Unsupported("conditional expression on non-terms")

    def ev_BinOp(self, node, st):
        a = self.ev(node.left, st)
        b = self.ev(node.right, st)
        return self.binop(st, node.op, a, b, node)

    def binop(self, st, op, a, b, node=None):
        if isinstance(a, OptV):
            self.check(st, Not(a.isnone), "TypeError", node)
            a = a.val
        if isinstance(b, OptV):
            self.check(st, Not(b.isnone), "TypeError", node)
            b = b.val
        if isinstance(a, T) and isinstance(b, T) and (a.sort == VAL or b.sort == VAL):
            other = b if a.sort == VAL else a
            if other.sort in (INT, STR) and isinstance(op, (ast.Add, ast.Sub, ast.Mult)):
                want = INT if (other.sort == INT and not isinstance(op, ast.Mult)) else (INT if other.sort == STR else None)
                if want is not None:
                    if a.sort == VAL:
                        a = self.val_as(st, a, want, node)
                    else:
                        b = self.val_as(st, b, want, node)
        if isinstance(a, T) and isinstance(b, T):
            if a.sort == INT and b.sort == INT:
                if isinstance(op, ast.Add):
                    return Add(a, b)
                if isinstance(op, ast.Sub):
                    return Sub(a, b)
                if isinstance(op, ast.Mult):
                    return Mul(a, b)
                if isinstance(op, ast.FloorDiv):
                    self.check(st, Ne(b, I(0)), "ZeroDivisionError", node)
                    if b.op == "#int" and b.val > 0:
                        return App("div", (a, b), INT)
                if isinstance(op, ast.Mod):
                    if b.op == "#int" and b.val > 0:
                        return App("mod", (a, b), INT)
            if a.sort == STR and b.sort == STR and isinstance(op, ast.Add):
                return Concat(a, b)
            if a.sort == STR and b.sort == INT and isinstance(op, ast.Mult):
                UFS["str_repeat"] = ([STR, INT], STR)
                return App("str_repeat", (a, b), STR)
            if a.sort == INT and b.sort == STR and isinstance(op, ast.Mult):
                UFS["str_repeat"] = ([STR, INT], STR)
                return App("str_repeat", (b, a), STR)
        if isinstance(a, ListV) and isinstance(b, ListV) and isinstance(op, ast.Add):
            ea = a.elem or b.elem
            va = st.cells[a.cell][0]
            vb = st.cells[b.cell][0]
            if va is None and vb is None:
                return ListV(self.new_cell(st, None), None)
            if va is None:
                va = Empty(vb.sort[1])
            if vb is None:
                vb = Empty(va.sort[1])
            return ListV(self.new_cell(st, Concat(va, vb)), ea)
        raise Unsupported("binary op %s on %r,%r (line %s)" % (type(op).__name__, a, b, getattr(node, "lineno", "?")))

    def ev_Compare(self, node, st):
        left = self.ev(node.left, st)
        out = []
        for op, rn in zip(node.ops, node.comparators):
            right = self.ev(rn, st)
            out.append(self.compare(st, op, left, right, node))
            left = right
        return And(*out)

    def compare(self, st, op, a, b, node=None):
        if isinstance(op, (ast.Is, ast.IsNot)):
            r = self.is_same(st, a, b)
            return r if isinstance(op, ast.Is) else Not(r)
        if isinstance(op, (ast.In, ast.NotIn)):
            r = self.contains(st, b, a, node)
            return r if isinstance(op, ast.In) else Not(r)
        if isinstance(op, (ast.Eq, ast.NotEq)):
            r = self.equal(st, a, b)
            return r if isinstance(op, ast.Eq) else Not(r)
        if isinstance(op, (ast.Lt, ast.LtE, ast.Gt, ast.GtE)) and (isinstance(a, NoneV) or isinstance(b, NoneV)):
            # ordering None: a TypeError in code; in a specification it only occurs under a guard that excludes it (result is not
            # None => ...) on the exit where the value IS None: the clause is false there and the guard makes it irrelevant
            if self.spec_mode:
                return FALSE
            self.check(st, FALSE, "TypeError", node)
            raise DeadPath()
        if isinstance(op, (ast.Lt, ast.LtE, ast.Gt, ast.GtE)) and (isinstance(a, OptV) or isinstance(b, OptV)):
            # ordering an optional value: TypeError when it is None
            if isinstance(a, OptV):
                self.check(st, Not(a.isnone), "TypeError", node)
                a = a.val
            if isinstance(b, OptV):
                self.check(st, Not(b.isnone), "TypeError", node)
                b = b.val
        if isinstance(a, T) and isinstance(b, T) and {a.sort, b.sort} == {INT, VAL}:
            if a.sort == VAL:
                a = self.val_as(st, a, INT, node)
            else:
                b = self.val_as(st, b, INT, node)
        if isinstance(a, T) and isinstance(b, T) and a.sort == INT and b.sort == INT:
            f = {ast.Lt: Lt, ast.LtE: Le, ast.Gt: Gt, ast.GtE: Ge}[type(op)]
            return f(a, b)
        raise Unsupported("comparison %s on %r, %r" % (type(op).__name__, a, b))

    def is_same(self, st, a, b):
        if isinstance(b, NoneV):
            if isinstance(a, NoneV):
                return TRUE
            if isinstance(a, OptV):
                return a.isnone
            return FALSE
        if isinstance(a, NoneV):
            return self.is_same(st, b, a)
        if isinstance(a, ObjV) and isinstance(b, ObjV):
            return Eq(a.term, b.term)
        if isinstance(a, TupleV) and isinstance(b, ClassV):
            return self.equal(st, a, b)
        if isinstance(a, ListV) and isinstance(b, ListV):
            if a.cell == b.cell:
                return TRUE
            raise Unsupported("identity of two lists")
        raise Unsupported("is on %r,%r" % (a, b))

    def equal(self, st, a, b):
        # an optional equals a plain value iff it is not None and its content equals it
        if isinstance(a, OptV) and not isinstance(b, (OptV, NoneV)):
            return And(Not(a.isnone), self.equal(st, a.val, b))
        if isinstance(b, OptV) and not isinstance(a, (OptV, NoneV)):
            return And(Not(b.isnone), self.equal(st, a, b.val))
        if isinstance(a, T) and isinstance(b, T):
            if a.sort != b.sort:
                if {a.sort, b.sort} == {INT, BOOL}:
                    # bool is a subclass of int: True == 1, False == 0
                    ai = a if a.sort == INT else Ite(a, I(1), I(0))
                    bi = b if b.sort == INT else Ite(b, I(1), I(0))
                    return Eq(ai, bi)
                if a.sort == VAL and b.sort in (INT, STR):
                    return Eq(a, App("VInt" if b.sort == INT else "VStr", (b,), VAL))
                if b.sort == VAL and a.sort in (INT, STR):
                    return self.equal(st, b, a)
                return FALSE
            return Eq(a, b)
        if isinstance(a, ListV) and isinstance(b, ListV):
            va, vb = st.cells[a.cell][0], st.cells[b.cell][0]
            if va is None and vb is None:
                return TRUE
            if va is None:
                return Eq(Len(vb), I(0))
            if vb is None:
                return Eq(Len(va), I(0))
            return Eq(va, vb)
        if isinstance(a, NoneV) or isinstance(b, NoneV):
            return self.is_same(st, a, b)
        if isinstance(a, ObjV) and isinstance(b, ObjV):
            return Eq(a.term, b.term)
        if isinstance(a, OptV) and isinstance(b, T):
            return And(Not(a.isnone), self.equal(st, a.val, b))
        if isinstance(b, OptV) and isinstance(a, T):
            return self.equal(st, b, a)
        if isinstance(a, ClassV) and isinstance(b, ClassV):
            return B(a.qual == b.qual)
        if isinstance(b, TupleV) and isinstance(a, ClassV):
            return self.equal(st, b, a)
        if isinstance(a, TupleV) and len(a.items) == 2 and isinstance(a.items[0], T) and a.items[0].op == "#str" and a.items[0].val == "#typeof" and isinstance(b, ClassV):
            UFS["cls"] = ([REF], INT)
            return Eq(App("cls", (a.items[1],), INT), I(self.engine.class_id(b.qual)))
        raise Unsupported("== on %r,%r" % (a, b))

    # ------------------------------------------------------------- dictionary objects
    # A dict that is mutated or iterated is an object of class builtins.dict with two heap fields: __keys__ (set of string keys) and
    # __vals__ (key -> reference; scalars are boxed by uninterpreted injections).  The iteration order is keyseq(keys): a sequence
    # that holds exactly the keys (an abstraction of insertion order: a function of the key set).
    def as_dict(self, st, v, node=None):
        if isinstance(v, OptV):
            self.check(st, Not(v.isnone), "TypeError", node)
            v = v.val
        if not isinstance(v, ObjV):
            raise Unsupported("dictionary operation on %r" % (v,))
        if v.cls == "builtins.dict":
            return v
        if v.cls is None:
            UFS["isdict"] = ([REF], BOOL)
            self.check(st, App("isdict", (v.term,), BOOL), "TypeError", node)
            return ObjV(v.term, "builtins.dict")
        raise Unsupported("dictionary operation on an object of class " + v.cls)

    def dict_arrays(self, st, d):
        return self.read_field(st, d, "__keys__"), self.read_field(st, d, "__vals__")

    def dict_keyseq(self, st, d):
        K, V = self.dict_arrays(st, d)
        UFS["keyseq"] = ([tm.Arr(STR, BOOL)], Seq(STR))
        ks = App("keyseq", (K,), Seq(STR))
        kv = Const("key!q%d" % next(_counter), STR)
        st.assume(T("#forall", (kv, TRUE, Eq(Select(K, kv), Contains(ks, Unit(kv)))), BOOL))
        return ks

    def box(self, st, v):
        """a python value as a dictionary value (a reference)"""
        if isinstance(v, ObjV):
            return v.term
        if isinstance(v, NoneV):
            return Const("none!ref", REF)
        if isinstance(v, T) and v.sort in (STR, INT, BOOL):
            nm = {STR: "box_str", INT: "box_int", BOOL: "box_bool"}[v.sort]
            UFS[nm] = ([v.sort], REF)
            return App(nm, (v,), REF)
        # lists, records, ...: an opaque object (its content is not tracked through the dictionary)
        return self.fresh("boxed", REF)

    def contains(self, st, container, x, node=None):
        if isinstance(container, ObjV) and container.cls in ("builtins.dict", None) and isinstance(x, T) and x.sort == STR:
            d = self.as_dict(st, container, node)
            return Select(self.dict_arrays(st, d)[0], x)
        if isinstance(container, ListV):
            val = st.cells[container.cell][0]
            if val is None:
                return FALSE
            xr = self.raw(st, x)
            if val.sort == Seq(VAL) and xr.sort != VAL:
                xr = App("VInt" if xr.sort == INT else "VStr", (xr,), VAL)
            # literal list -> disjunction
            parts = self.static_elems(val)
            if parts is not None:
                return Or(*[Eq(p, xr) for p in parts])
            return Contains(val, Unit(xr))
        if isinstance(container, T) and container.sort == STR:
            return Contains(container, self.raw(st, x))
        if isinstance(container, T) and isinstance(container.sort, tuple) and container.sort[0] == "Array" and container.sort[2] == BOOL:
            # a membership set (a field declared map[<key>,bool]: a collection that is only ever asked `x in c`)
            return Select(container, self.raw(st, x))
        if isinstance(container, TupleV):
            return Or(*[self.equal(st, y, x) for y in container.items])
        if isinstance(container, DictV):
            return Select(container.keys, self.raw(st, x))
        if isinstance(container, RecV):
            if isinstance(x, T) and x.op == "#str":
                return container.fields[x.val][0] if x.val in container.fields else FALSE
        if isinstance(container, OptV):
            self.check(st, Not(container.isnone), "TypeError", node)
            return self.contains(st, container.val, x, node)
        raise Unsupported("in on %r" % (container,))

    def static_elems(self, seq):
        if seq.op == "#empty":
            return []
        if seq.op == "seq.unit":
            return [seq.args[0]]
        if seq.op == "seq.++":
            out = []
            for a in seq.args:
                e = self.static_elems(a)
                if e is None:
                    return None
                out.extend(e)
            return out
        return None

    def ev_List(self, node, st):
        items = [self.ev(e, st) for e in node.elts]
        if not items:
            return ListV(self.new_cell(st, None), None)
        ty = self.type_of(st, items[0])
        seq = Concat(*[Unit(self.raw(st, x)) for x in items])
        return ListV(self.new_cell(st, seq), ty)

    def ev_Dict(self, node, st):
        if node.keys:
            if all(isinstance(k, ast.Constant) and isinstance(k.value, str) for k in node.keys):
                return RecV({k.value: (TRUE, self.ev(v, st)) for k, v in zip(node.keys, node.values)})
            raise Unsupported("dict literal with non-constant keys")
        if self.contract.get("dict_literals") == "record":
            return RecV({})
        ref = self.fresh("new_dict", REF)
        st.ghost["#allocated"] = set(st.ghost.get("#allocated", ())) | {str(ref)}
        d = ObjV(ref, "builtins.dict")
        # an empty dictionary: no key at all
        k0 = self.fresh("nokeys", tm.Arr(STR, BOOL))
        kv = Const("key!q%d" % next(_counter), STR)
        st.assume(T("#forall", (kv, TRUE, Not(Select(k0, kv))), BOOL))
        self.write_field(st, d, "__keys__", k0, node)
        UFS["isdict"] = ([REF], BOOL)
        st.assume(App("isdict", (ref,), BOOL))
        return d

    def ev_Tuple(self, node, st):
        return TupleV([self.ev(e, st) for e in node.elts])

    def ev_JoinedStr(self, node, st):
        parts = []
        for v in node.values:
            if isinstance(v, ast.Constant):
                parts.append(S(v.value))
            elif isinstance(v, ast.FormattedValue):
                x = self.ev(v.value, st)
                if isinstance(x, T) and x.sort == STR:
                    parts.append(x)
                elif isinstance(x, T) and x.sort == INT:
                    parts.append(App("str_of_int", (x,), STR))
                else:
                    raise Unsupported("f-string of %r" % (x,))
        return Concat(*parts) if parts else S("")

    def ev_ListComp(self, node, st):
        if len(node.generators) != 1:
            raise Unsupported("nested comprehension")
        g = node.generators[0]
        src = self.ev(g.iter, st)
        if not isinstance(src, ListV) or not isinstance(g.target, ast.Name):
            raise Unsupported("comprehension source")
        val = st.cells[src.cell][0]
        parts = self.static_elems(val) if val is not None else []
        if parts is None:
            # a map over a list of unknown length (no filter): a fresh sequence of the same length whose k-th element is the
            # element expression at the k-th source element
            if g.ifs:
                raise Unsupported("filtering comprehension over a list of unknown length")
            kv = Const("k!q%d" % next(_counter), INT)
            saved = st.env.get(g.target.id)
            st.env[g.target.id] = self.wrap_elem(st, Nth(val, kv), src.elem)
            try:
                ev = self.ev(node.elt, st)
            finally:
                if saved is None:
                    st.env.pop(g.target.id, None)
                else:
                    st.env[g.target.id] = saved
            er = self.raw(st, ev)
            if "!q" in str(er) and not isinstance(er, T):
                raise Unsupported("comprehension element")
            r = self.fresh("comp", Seq(er.sort))
            st.assume(Eq(Len(r), Len(val)))
            st.assume(T("#forall", (kv, And(Le(I(0), kv), Lt(kv, Len(val))), Eq(Nth(r, kv), er)), BOOL))
            return ListV(self.new_cell(st, r), self.type_of(st, ev))
        out = []
        saved = st.env.get(g.target.id)
        for p in parts:
            st.env[g.target.id] = self.wrap_elem(st, p, src.elem)
            cond = And(*[self.truth(st, self.ev(c, st)) for c in g.ifs])
            ev = self.ev(node.elt, st)
            u = Unit(self.raw(st, ev))
            out.append(Ite(cond, u, T("#empty", (), u.sort)))
            ety = self.type_of(st, ev)
        if saved is None:
            st.env.pop(g.target.id, None)
        else:
            st.env[g.target.id] = saved
        if not out:
            return ListV(self.new_cell(st, None), None)
        return ListV(self.new_cell(st, Concat(*out)), ety)

    # ------------------------------------------------------------------ calls
    def ev_Call(self, node, st):
        if self.spec_mode and isinstance(node.func, ast.Name) and node.func.id in ("old", "forall", "exists", "implies", "entry", "lasthead", "only_dict"):
            return self.spec_form(node, st)
        f = self.ev(node.func, st)
        if isinstance(f, ClassParamV):
            # instantiating a class that was received as a value: a fresh object of an unknown subclass of the declared base (its
            # constructor is not known: the fields of the new object are unconstrained)
            for a in node.args:
                self.ev(a, st)
            ref = self.fresh("new_" + f.base.split(".")[-1], REF)
            st.ghost["#allocated"] = set(st.ghost.get("#allocated", ())) | {str(ref)}
            # ... of a PROPER subclass: a class handed around as a value is never the base itself (part of what `cls:<base>` means)
            UFS["cls"] = ([REF], INT)
            st.assume(Ne(App("cls", (ref,), INT), I(self.engine.class_id(f.base))))
            return ObjV(ref, f.base)
        if not isinstance(f, (FuncV, ClassV)):
            raise Unsupported("call of %r" % (f,))
        args = []
        ct_ = self.engine.contracts.get(f.qual) if isinstance(f, FuncV) else None
        for i_, a in enumerate(node.args):
            # an argument of an assumed external contract that declares no type for it (the contract says nothing about it) may be
            # any expression: if it is outside the subset (a list with None entries, ...) it is passed as an opaque value
            opaque_ok = bool(ct_ and ct_.get("external") and i_ < len(ct_.get("params", [])) and ct_["params"][i_] not in ct_.get("types", {}))
            if opaque_ok:
                try:
                    args.append(self.ev(a, st))
                except Unsupported:
                    args.append(NONE)
            else:
                args.append(self.ev(a, st))
        kwargs = {k.arg: self.ev(k.value, st) for k in node.keywords}
        if isinstance(f, ClassV):
            return self.construct(st, f, args, kwargs, node)
        q = f.qual
        if q.startswith("builtins.") and f.bound is not None and q in self.engine.contracts:
            return self.call_function(st, q, [f.bound] + args, kwargs, node)
        if q.startswith("builtins."):
            return self.call_builtin(st, q[9:], args, kwargs, node)
        if q.startswith("method."):
            return self.call_method(st, f.bound, q[7:], args, kwargs, node)
        if q.startswith("spec."):
            return self.call_spec(st, q[5:], args, node)
        if f.bound is not None:
            args = [f.bound] + args
        return self.call_function(st, q, args, kwargs, node)

    def spec_form(self, node, st):
        name = node.func.id
        if name == "lasthead":
            # lasthead(k, e): value of e at the head of the last started iteration of loop k (exit by break)
            kk = node.args[0].value
            h = st.ghost.get("#lasthead%d" % kk)
            if h is None:
                probe = State()
                probe.env = {}
                # unconstrained value of the right sort: evaluate in the current state to learn the sort
                v = self.ev(node.args[1], st.fork())
                if isinstance(v, T):
                    return self.fresh("lasthead", v.sort)
                if isinstance(v, ListV):
                    return ListV(self.new_cell(st, self.fresh("lasthead", self.raw(st, v).sort)), v.elem)
                raise Unsupported("lasthead of %r" % (v,))
            h2 = h.fork()
            v = self.ev(node.args[1], h2)
            if isinstance(v, ListV):
                return ListV(self.new_cell(st, h2.cells[v.cell][0]), v.elem)
            return v
        if name == "only_dict":
            # only_dict(d, ...): of all dictionary objects only the listed ones differ from what they were in the old state
            # (object-precise frame, stated without a quantifier: the heap arrays are equal except at these references)
            o = self.old_state
            if o is None:
                raise Unsupported("only_dict() has no reference state here")
            ds = [self.as_dict(st, self.ev(a, st), node) for a in node.args]
            o2 = o.fork()
            out = []
            for f in ("__keys__", "__vals__"):
                ty, hk = self.field_info("builtins.dict", f)
                cur = self.heap_arr(st, hk, ty)
                arr = self.heap_arr(o2, hk, ty)
                for d in ds:
                    arr = Store(arr, d.term, Select(cur, d.term))
                out.append(Eq(cur, arr))
            return And(*out)
        if name in ("old", "entry"):
            o = self.old_state if name == "old" else (self.entry_states[-1] if self.entry_states else None)
            if o is None:
                raise Unsupported("%s() has no reference state here" % name)
            o2 = o.fork()
            o2.env.update(getattr(self, "_lambda_vars", {}))  # bound variables of enclosing forall/exists are visible inside old()
            saved = self.old_state
            try:
                v = self.ev(node.args[0], o2)
            finally:
                self.old_state = saved
            if isinstance(v, ListV):
                return ListV(self.new_cell(st, o2.cells[v.cell][0]), v.elem)
            if isinstance(v, OptV) and isinstance(v.val, ListV):
                return OptV(v.isnone, ListV(self.new_cell(st, o2.cells[v.val.cell][0]), v.val.elem))
            return v
        if name == "implies":
            a = self.truth(st, self.ev(node.args[0], st))
            st.guards.append(a)
            try:
                b = self.truth(st, self.ev(node.args[1], st))
            finally:
                st.guards.pop()
            return Implies(a, b)
        # forall(lambda k: body, lo, hi)
        lam = node.args[0]
        if not isinstance(lam, ast.Lambda) or len(lam.args.args) != 1:
            raise Unsupported("forall needs a one-argument lambda")
        lo = self.ev(node.args[1], st)
        hi = self.ev(node.args[2], st)
        kname = lam.args.args[0].arg
        kv = Const("%s!q%d" % (kname, next(_counter)), INT)
        saved = st.env.get(kname)
        st.env[kname] = kv
        lv = dict(getattr(self, "_lambda_vars", {}))
        self._lambda_vars = dict(lv, **{kname: kv})
        try:
            body = self.truth(st, self.ev(lam.body, st))
        finally:
            self._lambda_vars = lv
            if saved is None:
                st.env.pop(kname, None)
            else:
                st.env[kname] = saved
        rng = And(Le(lo, kv), Lt(kv, hi))
        if name == "forall":
            return T("#forall", (kv, rng, body), BOOL)
        return T("#exists", (kv, rng, body), BOOL)

    def call_spec(self, st, name, args, node):
        if name in self.engine.homs:
            return self.hom_call(st, name, args)
        return self.engine.spec_funcs[name](self, st, args, node)

    # ----------------------------------------------- homomorphic spec functions
    def hom_template(self, name):
        eng = self.engine
        if name in eng.hom_templates:
            return eng.hom_templates[name]
        d = eng.homs[name]
        st = State()
        st.ghost["#heap_prefix"] = "$H_"
        st.ghost["#reads"] = set()
        ety = parse_type(d["elem"])
        st.env["x"] = self.wrap(st, Const("$x", ety.sort()), ety)
        ctxn = []
        for i, (cn, ct) in enumerate(d.get("ctx", [])):
            cty = parse_type(ct)
            st.env[cn] = self.wrap(st, Const("$c%d" % i, cty.sort()), cty)
            ctxn.append("$c%d" % i)
        node = ast.parse(d["unit"].strip(), mode="eval").body
        saved = self.spec_mode
        self.spec_mode += 1
        try:
            v = self.ev(node, st)
        finally:
            self.spec_mode = saved
        rty = parse_type(d["result"])
        if isinstance(v, ListV) and st.cells[v.cell][0] is None:
            raw = Empty(rty.arg.sort())
        else:
            raw = self.raw(st, v)
        keys = sorted(st.ghost["#reads"])
        tpl = {
            "name": name,
            "template": raw,
            "x": "$x",
            "ctx": ctxn,
            "heap": [(k, st.heap[k].args[0]) for k in keys],
            "heap_sorts": [st.heap[k].sort for k in keys],
            "kind": "str" if rty.kind == "str" else "int" if rty.kind == "int" else "seq",
            "rtype": d["result"],
            "ctx_types": [ct for cn, ct in d.get("ctx", [])],
            "elem": d["elem"],
        }
        eng.hom_templates[name] = tpl
        UFS["hom_" + name] = ([Seq(ety.sort())] + [parse_type(ct).sort() for ct in tpl["ctx_types"]] + tpl["heap_sorts"], rty.sort())
        return tpl

    def hom_call(self, st, name, args):
        tpl = self.hom_template(name)
        seqv = args[0]
        if isinstance(seqv, ListV) and st.cells[seqv.cell][0] is None:
            seq = Empty(parse_type(tpl["elem"]).sort())
        else:
            seq = self.raw(st, seqv)
        ctx = []
        for a, ct in zip(args[1:], tpl["ctx_types"]):
            if isinstance(a, ListV) and st.cells[a.cell][0] is None:
                ctx.append(Empty(parse_type(ct).arg.sort()))
            else:
                ctx.append(self.raw(st, a))
        if len(ctx) != len(tpl["ctx"]):
            raise Unsupported("spec function %s expects %d context arguments" % (name, len(tpl["ctx"])))
        hidden = []
        for (k, ph), srt in zip(tpl["heap"], tpl["heap_sorts"]):
            if k not in st.heap:
                pre = st.ghost.get("#heap_prefix", "H_")
                st.heap[k] = Const("%s%s!0" % (pre, k), srt)
            reads = st.ghost.get("#reads")
            if reads is not None:
                reads.add(k)
            hidden.append(st.heap[k])
        rty = parse_type(tpl["rtype"])
        t = App("hom_" + name, [seq] + ctx + hidden, rty.sort())
        return self.wrap(st, t, rty)

    def call_builtin(self, st, name, args, kwargs, node):
        if name == "getattr" and len(args) == 2 and isinstance(args[0], ObjV) and isinstance(args[1], T) and args[1].sort == STR:
            # getattr(o, name) with a computed name: the entry of o.__dict__ (for classes whose __dict__ is declared as a dictionary
            # object); AttributeError when there is no such entry
            d = self.as_dict(st, self.read_field(st, args[0], "__dict__", node), node)
            K, V = self.dict_arrays(st, d)
            self.check(st, Select(K, args[1]), "AttributeError", node)
            return ObjV(Select(V, args[1]), None)
        if name == "len":
            (a,) = args
            if isinstance(a, OptV):
                self.check(st, Not(a.isnone), "TypeError", node)
                a = a.val
            if isinstance(a, ListV):
                v = st.cells[a.cell][0]
                return I(0) if v is None else Len(v)
            if isinstance(a, T) and a.sort == STR:
                return Len(a)
            if isinstance(a, IterV):
                return a.len
            raise Unsupported("len of %r" % (a,))
        if name == "print":
            return NONE
        if name == "range":
            if len(args) == 1:
                lo, hi, step = I(0), args[0], 1
            elif len(args) == 2:
                lo, hi, step = args[0], args[1], 1
            else:
                lo, hi = args[0], args[1]
                if args[2].op != "#int" or args[2].val == 0:
                    raise Unsupported("symbolic range step")
                step = args[2].val
            if step == 1:
                n = Ite(Gt(hi, lo), Sub(hi, lo), I(0))
                return IterV(n, lambda st2, i: Add(lo, i))
            if step > 0:
                n = Ite(Gt(hi, lo), App("div", (Add(Sub(hi, lo), I(step - 1)), I(step)), INT), I(0))
                return IterV(n, lambda st2, i: Add(lo, Mul(I(step), i)))
            if step == -1:
                n = Ite(Gt(lo, hi), Sub(lo, hi), I(0))
                return IterV(n, lambda st2, i: Sub(lo, i))
            raise Unsupported("range step %d" % step)
        if name == "zip" and len(args) >= 2:
            its = [self.to_iter(st, a) for a in args]
            n = its[0].len
            for it in its[1:]:
                n = tm.Min(n, it.len)
            return IterV(n, lambda st2, i, its=its: TupleV([it.elem(st2, i) for it in its]), None)
        if name == "enumerate":
            it = self.to_iter(st, args[0])
            return IterV(it.len, lambda st2, i: TupleV([i, it.elem(st2, i)]), it.seq)
        if name == "int":
            (a,) = args
            if isinstance(a, T) and a.sort == INT:
                return a
            if isinstance(a, T) and a.sort == STR:
                UFS["int_of_str"] = ([STR], INT)
                ok = self.fresh("int_ok", BOOL)
                self.check(st, ok, "ValueError", node)
                return App("int_of_str", (a,), INT)
            raise Unsupported("int() of non-int")
        if name == "str":
            (a,) = args
            if isinstance(a, OptV) and isinstance(a.val, T):
                return Ite(a.isnone, S("None"), self.call_builtin(st, "str", [a.val], {}, node))
            if isinstance(a, T) and a.sort == STR:
                return a
            if isinstance(a, T) and a.sort == INT:
                return App("str_of_int", (a,), STR)
            if isinstance(a, T) and a.sort == VAL:
                UFS["str_of_int"] = ([INT], STR)
                return Ite(App("(_ is VStr)", (a,), BOOL), App("vstr", (a,), STR), App("str_of_int", (App("vint", (a,), INT),), STR))
            raise Unsupported("str() of %r" % (a,))
        if name == "isinstance":
            if isinstance(args[0], OptV) and isinstance(args[0].val, T) and isinstance(args[1], FuncV):
                return And(Not(args[0].isnone), self.call_builtin(st, "isinstance", [args[0].val, args[1]], kwargs, node))
            if isinstance(args[0], T) and args[0].sort == VAL and isinstance(args[1], FuncV) and args[1].qual in ("builtins.str", "builtins.int"):
                return App("(_ is VStr)" if args[1].qual == "builtins.str" else "(_ is VInt)", (args[0],), BOOL)
            if isinstance(args[0], T) and args[0].sort in (INT, STR, BOOL) and isinstance(args[1], FuncV):
                return B({"builtins.str": STR, "builtins.int": INT, "builtins.bool": BOOL}.get(args[1].qual) == args[0].sort)
            if isinstance(args[0], ObjV) and args[0].cls is None and isinstance(args[1], FuncV) and args[1].qual in ("builtins.str", "builtins.int", "builtins.bool"):
                # an opaque reference (a dictionary value): is it a boxed scalar of that type?  (uninterpreted predicate; a boxed
                # value of one type is none of another: the injections have disjoint ranges, stated for the terms that occur)
                nm = "isboxed_" + args[1].qual[9:]
                UFS[nm] = ([REF], BOOL)
                return App(nm, (args[0].term,), BOOL)
            return self.engine.isinstance_hook(self, st, args[0], args[1], node)
        if "builtins." + name in self.engine.contracts:
            return self.call_function(st, "builtins." + name, args, kwargs, node)
        if name == "type":
            (a,) = args
            if isinstance(a, ObjV):
                return TupleV([S("#typeof"), a.term])
            raise Unsupported("type() of %r" % (a,))
        if name == "reversed" and len(args) == 1:
            return self.reversed_value(st, args[0])
        raise Unsupported("builtin " + name)

    def to_iter(self, st, v):
        if isinstance(v, IterV):
            return v
        if isinstance(v, ListV):
            val = st.cells[v.cell][0]
            if val is None:
                return IterV(I(0), lambda st2, i: (_ for _ in ()).throw(Unsupported("element of empty untyped list")), None)
            return IterV(Len(val), lambda st2, i: self.wrap_elem(st2, Nth(val, i), v.elem), val)
        if isinstance(v, T) and v.sort == STR:
            return IterV(Len(v), lambda st2, i: Nth(v, i), v)
        if isinstance(v, OptV):
            self.check(st, Not(v.isnone), "TypeError", None)
            return self.to_iter(st, v.val)
        if isinstance(v, ObjV) and v.cls in ("builtins.dict", None):
            ks = self.dict_keyseq(st, self.as_dict(st, v))
            return IterV(Len(ks), lambda st2, i: Nth(ks, i), ks)
        raise Unsupported("iteration over %r" % (v,))

    def call_method(self, st, base, name, args, kwargs, node):
        if isinstance(base, T) and base.sort == STR:
            return self.str_method(st, base, name, args, node)
        if isinstance(base, ListV):
            return self.list_method(st, base, name, args, node)
        if isinstance(base, ObjV) and base.cls in ("builtins.dict", None) and name in ("keys", "get"):
            d = self.as_dict(st, base, node)
            if name == "keys" and not args:
                return ListV(self.new_cell(st, self.dict_keyseq(st, d)), Type("str"))
            if name == "get" and len(args) in (1, 2) and isinstance(args[0], T) and args[0].sort == STR:
                K, V = self.dict_arrays(st, d)
                if len(args) == 1:
                    return OptV(Not(Select(K, args[0])), ObjV(Select(V, args[0]), None))
                return ObjV(Ite(Select(K, args[0]), Select(V, args[0]), self.box(st, args[1])), None)
        if isinstance(base, DictV):
            if name == "get" and len(args) == 1:
                k = self.raw(st, args[0])
                return OptV(Not(Select(base.keys, k)), self.wrap(st, Select(base.vals, k), base.vtype))
        raise Unsupported("method %s on %r" % (name, base))

    def val_as(self, st, v, sort, node=None):
        """use a Val-typed (int-or-str) python value as int / str: TypeError/AttributeError if it is the other kind"""
        if sort == INT:
            self.check(st, App("(_ is VInt)", (v,), BOOL), "TypeError", node)
            return App("vint", (v,), INT)
        self.check(st, App("(_ is VStr)", (v,), BOOL), "AttributeError", node)
        return App("vstr", (v,), STR)

    def str_method(self, st, s, name, args, node):
        if name in ("isspace", "isdigit"):
            return App(name, (s,), BOOL)
        if name in ("lower", "upper", "rstrip", "strip", "lstrip"):
            if args:
                raise Unsupported("strip with argument")
            return App(name, (s,), STR)
        if name in ("startswith", "endswith"):
            (a,) = args
            f = PrefixOf if name == "startswith" else SuffixOf
            if isinstance(a, TupleV):
                return Or(*[f(x, s) for x in a.items])
            return f(a, s)
        if name == "split":
            if len(args) == 0:
                r = App("wsplit", (s,), Seq(STR))
            else:
                r = App("split", (s, args[0]), Seq(STR))
            return ListV(self.new_cell(st, r), Type("str"))
        if name == "join":
            (a,) = args
            if isinstance(a, ListV):
                v = st.cells[a.cell][0]
                if v is None:
                    return S("")
                if s.op == "#str" and s.val == "":
                    return App("J", (v,), STR)
                UFS["joinsep"] = ([STR, Seq(STR)], STR)
                return App("joinsep", (s, v), STR)
            raise Unsupported("join of %r" % (a,))
        if name == "replace":
            a, b = args
            return App("str.replace_all", (s, a, b), STR)
        raise Unsupported("str method " + name)

    def list_method(self, st, lv, name, args, node):
        val, backing = st.cells[lv.cell]
        if name == "append":
            (x,) = args
            xr = self.raw(st, x)
            if isinstance(x, ListV):
                self.capture(st, x)
            if val is None:
                val = Empty(xr.sort)
                lv.elem = self.type_of(st, x)
            if lv.elem is None:
                lv.elem = self.type_of(st, x)
            self.mutate(st, lv, Concat(val, Unit(xr)))
            return NONE
        if name == "extend":
            (x,) = args
            if not isinstance(x, ListV):
                raise Unsupported("extend with %r" % (x,))
            xv = st.cells[x.cell][0]
            if xv is None:
                return NONE
            if val is None:
                val = Empty(xv.sort[1])
            if lv.elem is None:
                lv.elem = x.elem
            self.mutate(st, lv, Concat(val, xv))
            return NONE
        if name == "reverse":
            if val is None:
                return NONE
            self.mutate(st, lv, App(rev_uf(val.sort), (val,), val.sort))
            return NONE
        if name == "copy":
            return ListV(self.new_cell(st, val), lv.elem)
        if name == "clear":
            self.mutate(st, lv, Empty(val.sort[1]) if val is not None else None)
            return NONE
        if name == "pop":
            if val is None:
                self.check(st, FALSE, "IndexError", node)
                raise Unsupported("pop from empty untyped list")
            n = Len(val)
            if not args:
                self.check(st, Gt(n, I(0)), "IndexError", node)
                r = Nth(val, Sub(n, I(1)))
                self.mutate(st, lv, Extract(val, I(0), Sub(n, I(1))))
                return self.wrap_elem(st, r, lv.elem)
            # pop(i): negative indices count from the end; out of range raises IndexError
            (i,) = args
            if isinstance(i, OptV):
                self.check(st, Not(i.isnone), "TypeError", node)
                i = i.val
            if not (isinstance(i, T) and i.sort == INT):
                raise Unsupported("pop with a non-integer index")
            self.check(st, And(Le(Neg(n), i), Lt(i, n)), "IndexError", node)
            ii = norm_index(val, i)
            if ii.op not in ("#int", "#const"):
                c = self.fresh("idx", INT)
                st.assume(Eq(c, ii))
                ii = c
            r = Nth(val, ii)
            self.mutate(st, lv, Concat(Extract(val, I(0), ii), Extract(val, Add(ii, I(1)), Sub(Sub(n, ii), I(1)))))
            return self.wrap_elem(st, r, lv.elem)
        if name == "insert":
            i, x = args
            if val is None:
                val = Empty(self.raw(st, x).sort)
            n = Len(val)
            # python clamps insert index
            ii = Ite(Lt(i, I(0)), tm.Max(Add(n, i), I(0)), tm.Min(i, n))
            self.mutate(st, lv, Concat(Extract(val, I(0), ii), Unit(self.raw(st, x)), Extract(val, ii, Sub(n, ii))))
            return NONE
        if name == "sort" and not args:
            # in-place sort of a list of integers: an uninterpreted permutation (same length, every element of the result is
            # an element of the argument: the lemma engine treats sorted_int(L) as derived from L; ascending order)
            if val is None:
                return NONE
            if val.sort != Seq(INT):
                raise Unsupported("sort of a non-integer list")
            UFS["sorted_int"] = ([Seq(INT)], Seq(INT))
            self.mutate(st, lv, App("sorted_int", (val,), Seq(INT)))
            return NONE
        if name == "index":
            raise Unsupported("list.index")
        raise Unsupported("list method " + name)

    def capture(self, st, lv):
        self.notes.append("capture")
        st.ghost.setdefault("#captured", set())
        st.ghost["#captured"] = set(st.ghost["#captured"]) | {lv.cell}

    def mutate(self, st, lv, newval):
        if lv.cell in st.ghost.get("#captured", ()):
            raise Unsupported("in-place mutation of a list that was stored inside another list")
        if newval is not None and len(str(newval)) > 400 and not self.spec_mode:
            # a list that went through several in-place operations: name the intermediate value (a definition), so that the
            # next operation does not nest the whole history into every index expression
            c = self.fresh("lst", newval.sort)
            st.assume(Eq(c, newval))
            newval = c
        self.set_cell(st, lv.cell, newval)

    # ---------------------------------------------------------- user functions
    def construct(self, st, cv, args, kwargs, node):
        return self.engine.construct_hook(self, st, cv, args, kwargs, node)

    def call_function(self, st, q, args, kwargs, node):
        eng = self.engine
        contract = eng.contracts.get(q)
        r = eng.repo.func(q)
        if r is None:
            if contract is not None and contract.get("external"):
                names = contract.get("params", [])
                params = dict(zip(names, args))
                for k, v in kwargs.items():
                    if k in names:
                        params[k] = v
                for n in names:
                    if n not in params:
                        d = contract.get("defaults", {})
                        if n in d:
                            params[n] = self.lift_const(st, d[n])
                        else:
                            raise Unsupported("missing argument %s in call of %s" % (n, q))
                self.called.add(q)
                return self.apply_contract(st, q, contract, None, params, node)
            raise Unsupported("call to unknown function " + q)
        mod, inner, fdef = r
        params = self.bind_params(fdef, args, kwargs, st, mod)
        if contract is not None and not contract.get("inline"):
            self.called.add(q)
            return self.apply_contract(st, q, contract, fdef, params, node)
        # inline: callee must be loop-free and not recursive
        if q in eng.inline_stack:
            raise Unsupported("recursive inline of " + q)
        for sub in ast.walk(fdef):
            if isinstance(sub, (ast.For, ast.While)):
                raise Unsupported("callee %s has a loop and no contract" % q)
        self.inlined.add(q)
        return self.inline(st, q, mod, inner, fdef, params, node)

    def bind_params(self, fdef, args, kwargs, st, mod):
        a = fdef.args
        names = [x.arg for x in a.args]
        params = {}
        for n, v in zip(names, args):
            params[n] = v
        if len(args) > len(names):
            raise Unsupported("too many args")
        for k, v in kwargs.items():
            params[k] = v
        defaults = a.defaults
        for n, d in zip(names[len(names) - len(defaults) :], defaults):
            if n not in params:
                params[n] = self.ev_default(d, st, mod)
        for n in names:
            if n not in params:
                raise Unsupported("missing argument " + n)
        return params

    def ev_default(self, d, st, mod=None):
        if isinstance(d, ast.Constant):
            return self.ev_Constant(d, st)
        if isinstance(d, (ast.Attribute, ast.Name)) and mod is not None:
            # a default that names a module-level object of the callee's module (oType=parser.todo): evaluated there
            saved = self.module
            self.module = mod
            try:
                v = self.ev(d, st)
            finally:
                self.module = saved
            if isinstance(v, (ClassV, FuncV)):
                return v
        raise Unsupported("non-constant default")

    def inline(self, st, q, mod, inner, fdef, params, node):
        """execute callee body in place; returns value; may require statement-level forks"""
        eng = self.engine
        sub = st.fork()
        sub.env = dict(params)
        sub.guards = list(st.guards)
        sub.pending = []
        saved = (self.module, self.cls, self.inner)
        saved_fdef = getattr(self, "cur_fdef", None)
        self.module, self.inner = mod, inner
        self.cls = inner.split(".")[0] if "." in inner else None
        self.cur_fdef = fdef
        eng.inline_stack.append(q)
        base_pc = len(st.pc)
        try:
            comps = self.exec_block(fdef.body, sub)
        finally:
            eng.inline_stack.pop()
            self.module, self.cls, self.inner = saved
            self.cur_fdef = saved_fdef
        outs = []
        raised = []
        for c in comps:
            if c.kind == "normal":
                outs.append((c.st, NONE))
            elif c.kind == "return":
                outs.append((c.st, c.value))
            elif c.kind == "raise":
                # the exception leaves the inlined callee: it becomes a pending raise of the caller's statement
                if c.st.heap != st.heap or any(c.st.cells.get(k) != v for k, v in st.cells.items()):
                    raise Unsupported("inlined callee %s raises after a side effect" % q)
                raised.append((And(*c.st.pc[base_pc:]), c.exc))
            else:
                raise Unsupported("break/continue escaping callee")
        for cond, exc in raised:
            handled = any(any(exc_matches(exc, h) for h in hs) for hs in self.try_depth)
            allowed = self.contract.get("raises", "nothing")
            if handled or (allowed != "nothing" and any(exc_matches(exc, a) for a in allowed)):
                st.pending.append((And(*(st.guards + [cond])), exc, None))
            else:
                self.prove(st, Not(cond), "no-raise", node, exc)
        if not outs:
            raise DeadPath()
        if len(outs) == 1:
            s1, v = outs[0]
            self.adopt(st, s1)
            return v
        if self.fork_node is node and node is not None:
            raise ForkResult(outs)
        # several exits: merge states and results with ite on the exits' path conditions
        conds = []
        for s1, v in outs:
            cnd = And(*s1.pc[base_pc:])
            if len(str(cnd)) > 300:
                cb = self.fresh("exit_cond", BOOL)
                st.pc.append(Eq(cb, cnd))
                cnd = cb
            conds.append(cnd)
        base_cells = dict(st.cells)
        for s1, v in outs:
            for k, c in s1.cells.items():
                if k not in base_cells:
                    st.cells[k] = c
        for cid, (v0, b0) in base_cells.items():
            vals = [s1.cells[cid] for s1, v in outs]
            if all(str(x[0]) == str(vals[0][0]) for x in vals):
                st.cells[cid] = (vals[0][0], frozenset().union(*[x[1] for x in vals]))
                continue
            m = vals[-1][0]
            for cnd, x in zip(reversed(conds[:-1]), reversed(vals[:-1])):
                m = Ite(cnd, x[0], m)
            st.cells[cid] = (m, frozenset().union(*[x[1] for x in vals]))
        fields = set()
        for s1, v in outs:
            fields |= set(s1.heap)
        for f in fields:
            arrs = [s1.heap.get(f, st.heap.get(f)) for s1, v in outs]
            if any(a is None for a in arrs):
                arrs = [a if a is not None else [x for x in arrs if x is not None][0] for a in arrs]
            m = arrs[-1]
            for cnd, a in zip(reversed(conds[:-1]), reversed(arrs[:-1])):
                m = Ite(cnd, a, m)
            st.heap[f] = m
        cap = set()
        for s1, v in outs:
            cap |= set(s1.ghost.get("#captured", ()))
            st.pending.extend(s1.pending)
            st.effect = st.effect or s1.effect
        if cap:
            st.ghost["#captured"] = cap
        st.assume(Or(*conds))
        merged = outs[-1][1]
        for cnd, (s1, v) in zip(reversed(conds[:-1]), reversed(outs[:-1])):
            merged = self.merge_val(st, cnd, v, merged)
        return merged

    def to_val(self, x):
        if isinstance(x, T) and x.sort == INT:
            return App("VInt", (x,), VAL)
        if isinstance(x, T) and x.sort == STR:
            return App("VStr", (x,), VAL)
        return x

    def named(self, st, term, base):
        """give a large merged term a name (defining equation in the path condition) so that it is not copied into
        every later term"""
        if len(str(term)) < 300:
            return term
        c = self.fresh(base, term.sort)
        st.pc.append(Eq(c, term))
        return c

    def merge_val(self, st, cond, a, b):
        # python values of different kinds (int / str) flowing together: lift both into the Val datatype
        ta = a.val if isinstance(a, OptV) else a
        tb = b.val if isinstance(b, OptV) else b
        if isinstance(ta, T) and isinstance(tb, T) and ta.sort != tb.sort and {ta.sort, tb.sort} <= {INT, STR, VAL}:
            if isinstance(a, OptV):
                a = OptV(a.isnone, self.to_val(a.val))
            else:
                a = self.to_val(a)
            if isinstance(b, OptV):
                b = OptV(b.isnone, self.to_val(b.val))
            else:
                b = self.to_val(b)
        if isinstance(a, T) and isinstance(b, T) and a.sort == b.sort:
            return Ite(cond, a, b)
        if isinstance(a, NoneV) and isinstance(b, NoneV):
            return NONE
        if isinstance(a, NoneV) and isinstance(b, T):
            return OptV(cond, b)
        if isinstance(b, NoneV) and isinstance(a, T):
            return OptV(Not(cond), a)
        if isinstance(a, OptV) and isinstance(b, T):
            return OptV(And(cond, a.isnone), Ite(cond, a.val, b))
        if isinstance(a, T) and isinstance(b, OptV):
            return OptV(And(Not(cond), b.isnone), Ite(cond, a, b.val))
        if isinstance(a, NoneV) and isinstance(b, OptV):
            return OptV(Or(cond, b.isnone), b.val)
        if isinstance(a, ListV) and isinstance(b, ListV):
            if a.cell == b.cell:
                return a
            return ListV(self.new_cell(st, Ite(cond, self.raw(st, a), self.raw(st, b))), a.elem or b.elem)
        if isinstance(a, ObjV) and isinstance(b, ObjV):
            return ObjV(Ite(cond, a.term, b.term), a.cls if a.cls == b.cls else None)
        # an opaque reference (a dictionary value) and a scalar: the scalar is boxed, as it would be inside a dictionary
        if isinstance(a, ObjV) and a.cls is None and isinstance(b, T) and b.sort in (STR, INT, BOOL):
            return ObjV(Ite(cond, a.term, self.box(st, b)), None)
        if isinstance(b, ObjV) and b.cls is None and isinstance(a, T) and a.sort in (STR, INT, BOOL):
            return ObjV(Ite(cond, self.box(st, a), b.term), None)
        raise Unsupported("cannot merge results %r / %r" % (a, b))

    def adopt(self, st, s1):
        st.cells = s1.cells
        st.heap = s1.heap
        st.pc = s1.pc
        st.effect = s1.effect
        st.ghost = s1.ghost
        st.pending.extend(s1.pending)

    def apply_contract(self, st, q, contract, fdef, params, node):
        env = dict(params)
        types = contract.get("types", {})
        # coerce / check static types of arguments is left to the sorts
        pre_state = st.fork()
        pre_state.env = env
        n = self.site("pre-of:" + q)
        for i, r in enumerate(contract.get("requires", [])):
            goal = self.spec_bool(r, st, env=env, old=pre_state)
            if not (goal.op == "#bool" and goal.val):
                name = "%s#pre-of:%s@%d/%d" % (self.qual, q.split(".", 1)[1] if q.startswith("vsg.") else q, n, i + 1)
                self.obls.append(Obl(name, st.ctx(), skolemize(goal), "pre", self.qual, node))
                st.assume(Implies(And(*st.guards), goal) if st.guards else goal)
        # possible exceptions declared by the callee
        callee_raises = contract.get("raises", "nothing")
        if callee_raises != "nothing":
            for exc in callee_raises:
                cond = contract.get("raises_when", {}).get(exc)
                onr = contract.get("on_raise", {}).get(exc) or contract.get("on_raise", {}).get("*")
                effect = None
                if onr:
                    def effect(es, onr=onr, env=env, exc=exc):
                        pre2 = es.fork()
                        pre2.env = env
                        for m in onr.get("modifies", []):
                            self.havoc_target(es, m, env)
                        saved = es.ghost.get("#exc")
                        for e in onr.get("ensures", []):
                            es.assume(self.spec_bool(e.replace("$EXC", repr(exc)), es, env=dict(env), old=pre2))
                if cond is None:
                    self.check(st, self.fresh("noexc_" + exc, BOOL), exc, node, effect)
                else:
                    self.check(st, Not(self.spec_bool(cond, st, env=env, old=pre_state)), exc, node, effect)
        # havoc the frame
        for m in contract.get("modifies", []):
            self.havoc_target(st, m, env)
        # result
        rt = contract.get("returns")
        res = NONE
        if rt:
            res = self.fresh_value(st, parse_type(rt), "ret_" + q.split(".")[-1])
        post_env = dict(env)
        import re as _re

        ens = list(contract.get("ensures", [])) + list(contract.get("defines", []))
        names = set(_re.findall(r"\b_n\d+\b", " ".join(ens)))
        heads = set(_re.findall(r"lasthead\((\d+)", " ".join(ens)))
        saved_g = {n: st.ghost.get(n) for n in names}
        saved_h = {"#lasthead" + h: st.ghost.get("#lasthead" + h) for h in heads}
        for n in names:
            st.ghost[n] = self.fresh("callee" + n, INT)
        for h in heads:
            st.ghost.pop("#lasthead" + h, None)
        hyp = [self.spec_bool(a, pre_state, env=dict(env), old=pre_state) for a in contract.get("assume", [])]
        try:
            for e in ens:
                t = self.spec_bool(e, st, env=post_env, old=pre_state, result=res)
                if hyp and not contract.get("assume_free", []).count(e):
                    t = Implies(And(*hyp), t)
                st.assume(self.guarded(st, t))
        finally:
            for n, v in list(saved_g.items()) + list(saved_h.items()):
                if v is None:
                    st.ghost.pop(n, None)
                else:
                    st.ghost[n] = v
        alias = contract.get("result_alias")
        if alias:
            res = env[alias]
        return res

    def guarded(self, st, t):
        return Implies(And(*st.guards), t) if st.guards else t

    def heap_keys_of(self, spec):
        """'f' or 'Class.f' (as in FIELDS) -> [(type, heap key)] for every declaration it names"""
        ft = self.engine.fields
        ov = self.contract.get("fields") if self.contract else None
        if ov:
            ft = dict(ft)
            ft.update(ov)
        out = []
        if spec in ft and "." not in spec:
            out.append((parse_type(ft[spec]), spec))
        for k in ft:
            if "." in k and (k == spec or k.endswith("." + spec)):
                out.append((parse_type(ft[k]), k.split(".")[-2] + "__" + k.split(".")[-1]))
        if not out:
            raise Unsupported("unknown field in modifies: " + spec)
        return out

    def havoc_heap_key(self, st, hk, ty):
        self.heap_arr(st, hk, ty)
        st.heap[hk] = self.fresh("H_" + hk, st.heap[hk].sort)
        if ty.kind == "opt":
            st.heap[hk + "?"] = self.fresh("H_" + hk + "_isnone", st.heap[hk + "?"].sort)
        for cid, (val, backing) in list(st.cells.items()):
            for objt, k2 in backing:
                if k2 == hk:
                    st.cells[cid] = (Select(st.heap[hk], objt), backing)

    def havoc_target(self, st, m, env):
        st.effect = True
        if m.startswith("ghost:"):
            g = m[6:]
            v = st.ghost[g]
            if isinstance(v, ListV):
                self.set_cell(st, v.cell, self.fresh(g, st.cells[v.cell][0].sort))
            elif isinstance(v, T):
                st.ghost[g] = self.fresh(g, v.sort)
            elif isinstance(v, ObjV):
                st.ghost[g] = ObjV(self.fresh(g, REF), v.cls)
            else:
                raise Unsupported("havoc ghost " + g)
            return
        if m.startswith("heap:"):
            for ty, hk in self.heap_keys_of(m[5:]):
                self.havoc_heap_key(st, hk, ty)
            return
        node = ast.parse(m, mode="eval").body
        if isinstance(node, ast.Name):
            v = env[node.id]
            if isinstance(v, ListV):
                val = st.cells[v.cell][0]
                srt = val.sort if val is not None else Seq(v.elem.sort())
                self.set_cell(st, v.cell, self.fresh(node.id, srt))
                return
            raise Unsupported("modifies non-list name " + m)
        if isinstance(node, ast.Attribute):
            sub = st.fork()
            sub.env = env
            self.spec_mode += 1
            try:
                obj = self.ev(node.value, sub)
            finally:
                self.spec_mode -= 1
            if not isinstance(obj, ObjV):
                raise Unsupported("modifies target " + m)
            ty, hk = self.field_info(obj.cls, node.attr)
            arr = self.heap_arr(st, hk, ty)
            key = (obj.term, hk)
            fv = self.fresh(node.attr, arr.sort[2])
            st.heap[hk] = Store(arr, obj.term, fv)
            if ty.kind == "opt":
                st.heap[hk + "?"] = Store(st.heap[hk + "?"], obj.term, self.fresh(node.attr + "_isnone", BOOL))
            for cid, (val, backing) in list(st.cells.items()):
                if key in backing:
                    st.cells[cid] = (fv, backing)
            return
        raise Unsupported("modifies target " + m)

    # ------------------------------------------------------------- statements
    def exec_block(self, stmts, st):
        """returns list of Completion"""
        states = [st]
        done = []
        for s in stmts:
            nxt = []
            for cur in states:
                for c in self.exec_stmt(s, cur):
                    if c.kind == "normal":
                        nxt.append(c.st)
                    else:
                        done.append(c)
            states = nxt
            if not states:
                break
        return done + [Completion("normal", s) for s in states]

    def exec_stmt(self, s, st):
        if isinstance(s, ast.Expr) and isinstance(s.value, ast.Constant):
            return [Completion("normal", st)]  # docstring
        m = getattr(self, "st_" + type(s).__name__, None)
        if m is None:
            raise Unsupported("statement %s (line %s)" % (type(s).__name__, s.lineno))
        st.pending = []
        st.effect = False
        self.pre = st.fork()
        pre = self.pre
        try:
            comps = m(s, st)
        except DeadPath:
            return self.flush(st, pre)
        out = list(comps)
        if not isinstance(s, (ast.If, ast.For, ast.While, ast.Try, ast.With)):
            for c in comps:
                out.extend(self.flush(c.st, pre))
            always = self.contract.get("always")
            if always and not self.engine.inline_stack and not self.spec_mode:
                # crash-point quantifier: the two-state invariant holds after every statement and on every exceptional edge
                for c in out:
                    for k, inv in enumerate(always):
                        self.prove(c.st, self.spec_bool(inv, c.st), "crash-point", s, "line%d.%d" % (s.lineno, k + 1))
        return out

    def flush(self, st, pre):
        """turn the pending raises recorded while evaluating an expression into raise completions"""
        out = []
        seen = set()
        for ent in st.pending:
            cond, exc = ent[0], ent[1]
            effect = ent[2] if len(ent) > 2 else None
            k = (str(cond), exc)
            if k in seen:
                continue
            seen.add(k)
            es = pre.fork()
            es.pending = []
            es.assume(cond)
            if effect is not None:
                effect(es)
            out.append(Completion("raise", es, exc=exc))
        st.pending = []
        return out

    def st_Pass(self, s, st):
        return [Completion("normal", st)]

    def with_fork(self, s, st, value_node, cont):
        """evaluate value_node; if it is an inlined call with several exits, continue once per exit"""
        saved = self.fork_node
        self.fork_node = value_node if isinstance(value_node, ast.Call) else None
        caller_env = dict(st.env)
        try:
            v = self.ev(value_node, st)
        except ForkResult as fr:
            self.fork_node = saved
            out = []
            for s1, v1 in fr.outs:
                s1.env = dict(caller_env)
                s1.guards = list(st.guards)
                s1.pending = list(st.pending) + list(s1.pending)
                out.extend(cont(s1, v1))
            return out
        finally:
            self.fork_node = saved
        return cont(st, v)

    def st_Expr(self, s, st):
        return self.with_fork(s, st, s.value, lambda s1, v: [Completion("normal", s1)])

    def st_Return(self, s, st):
        if s.value is None:
            return [Completion("return", st, value=NONE)]
        return self.with_fork(s, st, s.value, lambda s1, v: [Completion("return", s1, value=v)])

    def st_Break(self, s, st):
        return [Completion("break", st)]

    def st_Continue(self, s, st):
        return [Completion("continue", st)]

    def st_Raise(self, s, st):
        exc = None
        if s.exc is not None:
            e = s.exc
            if isinstance(e, ast.Call):
                e = e.func
            if isinstance(e, ast.Name):
                exc = e.id
            elif isinstance(e, ast.Attribute):
                exc = e.attr
        if exc is None:
            exc = st.ghost.get("#current_exc", "Exception")
        return [Completion("raise", st, exc=exc)]

    def st_Assign(self, s, st):
        if isinstance(s.value, ast.Dict) and not s.value.keys and len(s.targets) == 1 and isinstance(s.targets[0], ast.Name) and s.targets[0].id in self.contract.get("record_locals", []) and not self.engine.inline_stack:
            # `name = {}` for a local the contract declares a record (string-keyed, keys known statically)
            v = RecV({})
        else:
            v = self.ev(s.value, st)
        if isinstance(v, ListV) and st.cells[v.cell][0] is None and len(s.targets) == 1 and isinstance(s.targets[0], (ast.Name, ast.Subscript)):
            ety = self.local_elem_type(ast.unparse(s.targets[0]))
            if ety is not None:
                st.cells[v.cell] = (Empty(ety.sort()), st.cells[v.cell][1])
                v.elem = ety
        for t in s.targets:
            self.assign(st, t, v, s)
        return [Completion("normal", st)]

    def st_AugAssign(self, s, st):
        cur = self.ev(s.target, st)
        v = self.ev(s.value, st)
        if isinstance(cur, ListV) and isinstance(s.op, ast.Add):
            self.list_method(st, cur, "extend", [v], s)
            return [Completion("normal", st)]
        self.assign(st, s.target, self.binop(st, s.op, cur, v, s), s)
        return [Completion("normal", st)]

    def assign(self, st, target, v, node):
        if isinstance(target, ast.Name):
            if isinstance(v, IterV):
                raise Unsupported("binding an iterator")
            lt = self.contract.get("locals", {}).get(target.id) if not self.engine.inline_stack else None
            if lt and lt.startswith("obj:") and isinstance(v, ObjV):
                # the declared class of a local is relied upon when the effects of method calls on it are computed
                if v.cls != lt[4:] and lt[4:] not in self.engine.mro(v.cls or ""):
                    raise Unsupported("local %s declared %s but assigned a %s" % (target.id, lt, v.cls))
            st.env[target.id] = v
            return
        if isinstance(target, ast.Attribute):
            obj = self.ev(target.value, st)
            if not isinstance(obj, ObjV):
                raise Unsupported("attribute store on %r" % (obj,))
            self.write_field(st, obj, target.attr, v, node)
            return
        if isinstance(target, (ast.Tuple, ast.List)):
            if not isinstance(v, TupleV) or len(v.items) != len(target.elts):
                raise Unsupported("tuple unpack")
            for t, x in zip(target.elts, v.items):
                self.assign(st, t, x, node)
            return
        if isinstance(target, ast.Subscript):
            base = self.ev(target.value, st)
            if isinstance(base, ListV) and not isinstance(target.slice, ast.Slice):
                idx = self.ev(target.slice, st)
                val = self.raw(st, base)
                n = Len(val)
                self.check(st, And(Le(Neg(n), idx), Lt(idx, n)), "IndexError", node)
                ii = norm_index(val, idx)
                if ii.op not in ("#int", "#const"):
                    c = self.fresh("idx", INT)
                    st.assume(Eq(c, ii))
                    ii = c
                self.mutate(st, base, Concat(Extract(val, I(0), ii), Unit(self.raw(st, v)), Extract(val, Add(ii, I(1)), Sub(n, Add(ii, I(1))))))
                return
            if isinstance(base, ListV) and isinstance(target.slice, ast.Slice):
                sl = target.slice
                if sl.step is not None:
                    raise Unsupported("slice store with step")
                val = self.raw(st, base)
                lo = self.ev(sl.lower, st) if sl.lower is not None else None
                hi = self.ev(sl.upper, st) if sl.upper is not None else None
                n = Len(val)
                lo2 = I(0) if lo is None else Ite(Lt(lo, I(0)), tm.Max(Add(n, lo), I(0)), tm.Min(lo, n))
                hi2 = n if hi is None else Ite(Lt(hi, I(0)), tm.Max(Add(n, hi), I(0)), tm.Min(hi, n))
                hi3 = tm.Max(hi2, lo2)
                if lo2.op not in ("#int", "#const"):
                    c = self.fresh("slo", INT)
                    st.assume(Eq(c, lo2))
                    hi3 = tm.subst_term(hi3, lo2, c)
                    lo2 = c
                if hi3.op not in ("#int", "#const"):
                    c = self.fresh("shi", INT)
                    st.assume(Eq(c, hi3))
                    hi3 = c
                if not isinstance(v, ListV):
                    raise Unsupported("slice store of non-list")
                nv = st.cells[v.cell][0]
                if nv is None:
                    nv = Empty(val.sort[1])
                self.mutate(st, base, Concat(Extract(val, I(0), lo2), nv, Extract(val, hi3, Sub(n, hi3))))
                return
            if isinstance(base, RecV) and isinstance(target.value, ast.Name) and not isinstance(target.slice, ast.Slice):
                k = self.ev(target.slice, st)
                if isinstance(k, T) and k.op == "#str":
                    nf = dict(base.fields)
                    nf[k.val] = (TRUE, v)
                    st.env[target.value.id] = RecV(nf)
                    return
            if isinstance(base, DictV):
                raise Unsupported("dict store")
            if isinstance(base, ObjV) and base.cls in ("builtins.dict", None) and not isinstance(target.slice, ast.Slice):
                k = self.ev(target.slice, st)
                if not (isinstance(k, T) and k.sort == STR):
                    raise Unsupported("dictionary key that is not a string")
                d = self.as_dict(st, base, node)
                K, V = self.dict_arrays(st, d)
                self.write_field(st, d, "__keys__", Store(K, k, TRUE), node)
                self.write_field(st, d, "__vals__", Store(V, k, self.box(st, v)), node)
                return
        raise Unsupported("assignment target %s" % type(target).__name__)

    def st_If(self, s, st):
        pre = self.pre
        c = self.truth(st, self.ev(s.test, st))
        out = self.flush(st, pre)
        if not (c.op == "#bool" and not c.val):
            a = st.fork()
            a.assume(c)
            out.extend(self.exec_block(s.body, a))
        if not (c.op == "#bool" and c.val):
            b = st.fork()
            b.assume(Not(c))
            out.extend(self.exec_block(s.orelse, b))
        return out

    # ------------------------------------------------------------------ loops
    def assigned_in(self, stmts):
        """names assigned, cells mutated (by var name), fields written inside stmts"""
        names, muts, fields = set(), set(), set()
        eng = self.engine

        def visit_call(c):
            f = c.func
            if isinstance(f, ast.Attribute) and f.attr in ("append", "extend", "pop", "insert", "remove", "reverse", "clear", "sort"):
                muts.add(ast.unparse(f.value))
            # contract / inline callee effects; a method call whose receiver class is not known statically may reach any
            # function of that name: the union of their effects is havocked
            for q in self.static_callees(c):
                ct = eng.contracts.get(q)
                r = eng.repo.func(q)
                if ct is not None and not ct.get("inline"):
                    pn = [a.arg for a in r[2].args.args] if r else []
                    for mtarget in ct.get("modifies", []):
                        if mtarget.startswith("heap:"):
                            fields.add(("*", mtarget[5:]))
                            continue
                        if mtarget.startswith("ghost:"):
                            fields.add(("ghost", mtarget[6:]))
                            continue
                        mn = ast.parse(mtarget, mode="eval").body
                        root = mn
                        while isinstance(root, ast.Attribute):
                            root = root.value
                        if isinstance(root, ast.Name) and root.id in pn:
                            k = pn.index(root.id)
                            actuals = list(c.args)
                            if isinstance(c.func, ast.Attribute) and pn and pn[0] == "self" and not self.is_module_attr(c.func):
                                actuals = [c.func.value] + actuals
                            if k < len(actuals):
                                actual = ast.unparse(actuals[k])
                                if isinstance(mn, ast.Name):
                                    muts.add(actual)
                                else:
                                    fields.add((actual, mn.attr))
                elif r is not None and q not in self._scan_stack:
                    self._scan_stack.append(q)
                    n2, m2, f2 = self.assigned_in(r[2].body)
                    self._scan_stack.pop()
                    pn = [a.arg for a in r[2].args.args]
                    actuals = list(c.args)
                    if isinstance(c.func, ast.Attribute) and pn and pn[0] == "self" and not self.is_module_attr(c.func):
                        actuals = [c.func.value] + actuals
                    amap = {p: ast.unparse(a) for p, a in zip(pn, actuals)}
                    for mm in m2:
                        root = mm.split(".")[0].split("[")[0]
                        if root in amap:
                            muts.add(amap[root] + mm[len(root) :])
                    for o, ff in f2:
                        root = o.split(".")[0]
                        if o == "ghost":
                            fields.add((o, ff))
                        elif root in amap:
                            fields.add((amap[root] + o[len(root) :], ff))
                        else:
                            fields.add(("*", ff))

        for node in stmts:
            for sub in ast.walk(node):
                if isinstance(sub, (ast.Assign, ast.AugAssign, ast.For)):
                    tgts = sub.targets if isinstance(sub, ast.Assign) else [sub.target]
                    for t in tgts:
                        for x in ast.walk(t):
                            if isinstance(x, ast.Name) and isinstance(x.ctx, ast.Store):
                                names.add(x.id)
                        if isinstance(t, ast.Attribute):
                            fields.add((ast.unparse(t.value), t.attr))
                        if isinstance(t, ast.Subscript):
                            muts.add(ast.unparse(t.value))
                        if isinstance(sub, ast.AugAssign) and isinstance(t, ast.Name):
                            muts.add(t.id)
                elif isinstance(sub, ast.Call):
                    visit_call(sub)
        return names, muts, fields

    _scan_stack = []

    def is_module_attr(self, f):
        # f is ast.Attribute; true when f.value names a module (utils.foo) rather than an object
        v = f.value
        if isinstance(v, ast.Name) and (v.id in self.module.imports):
            return True
        return False

    def static_callee(self, c):
        f = c.func
        m = self.module
        if isinstance(f, ast.Name):
            if f.id in m.funcs:
                return m.name + "." + f.id
            if f.id in m.imports:
                r = self.engine.repo.resolve(m.imports[f.id])
                if r and r[0] == "func":
                    return r[1].name + "." + r[2]
            return None
        if isinstance(f, ast.Attribute):
            if isinstance(f.value, ast.Name):
                if f.value.id == "self" and self.cls:
                    return self.engine.find_method(m.name + "." + self.cls, f.attr)
                if f.value.id in m.imports:
                    r = self.engine.repo.resolve(m.imports[f.value.id] + "." + f.attr)
                    if r and r[0] == "func":
                        return r[1].name + "." + r[2]
                lt = self.contract.get("locals", {}).get(f.value.id) or self.contract.get("types", {}).get(f.value.id)
                if lt and lt.startswith("obj:"):
                    # declared class of a local / parameter (checked against the value at every assignment of the name)
                    q = self.engine.find_method(lt[4:], f.attr)
                    if q:
                        return q
                    if lt[4:] + "." + f.attr in self.engine.contracts:
                        return lt[4:] + "." + f.attr
        return None

    def static_callees(self, c):
        q = self.static_callee(c)
        if q:
            return [q]
        f = c.func
        if isinstance(f, ast.Attribute):
            # method on an object of unknown static class: every function of that name that has a contract or a body
            cands = [q for q in self.engine.contracts if q.endswith("." + f.attr) and (self.engine.repo.func(q) or self.engine.contracts[q].get("external"))]
            if not cands:
                for mod in self.engine.repo.loaded_modules():
                    for fq in mod.funcs:
                        if fq.endswith("." + f.attr):
                            cands.append(mod.name + "." + fq)
            return sorted(set(cands))
        return []

    def havoc_for_loop(self, st, body, extra_names=()):
        names, muts, fields = self.assigned_in(body)
        names |= set(extra_names)
        hav_cells = set()
        for n in sorted(names):
            v = st.env.get(n)
            if v is None:
                continue
            if isinstance(v, T):
                st.env[n] = self.fresh(n, v.sort)
            elif isinstance(v, ListV):
                # rebinding: new cell with fresh contents
                val = st.cells[v.cell][0]
                ety = v.elem or self.local_elem_type(n)
                if val is None and ety is None:
                    raise Unsupported("list %s reassigned in loop has no known element type (declare locals)" % n)
                srt = val.sort if val is not None else Seq(ety.sort())
                st.env[n] = ListV(self.new_cell(st, self.fresh(n, srt)), ety)
            elif isinstance(v, OptV):
                st.env[n] = OptV(self.fresh(n + "_isnone", BOOL), self.havoc_val(st, v.val, n))
            elif isinstance(v, ObjV):
                st.env[n] = ObjV(self.fresh(n, REF), v.cls)
            elif isinstance(v, NoneV):
                lt = self.contract.get("locals", {}).get(n)
                if lt is None:
                    raise Unsupported("variable %s is None before loop and assigned inside (declare locals)" % n)
                st.env[n] = self.fresh_value(st, parse_type(lt), n)
            else:
                raise Unsupported("cannot havoc %s of kind %r" % (n, v))
        for mexpr in sorted(muts):
            try:
                node = ast.parse(mexpr, mode="eval").body
                self.spec_mode += 1
                try:
                    v = self.ev(node, st)
                finally:
                    self.spec_mode -= 1
            except Unsupported:
                continue
            if isinstance(v, ListV) and v.cell not in hav_cells:
                val = st.cells[v.cell][0]
                ety = v.elem or self.local_elem_type(mexpr)
                if val is None and ety is None:
                    raise Unsupported("list %s mutated in loop has no known element type (declare locals)" % mexpr)
                if v.elem is None:
                    v.elem = ety
                srt = val.sort if val is not None else Seq(ety.sort())
                self.set_cell(st, v.cell, self.fresh(mexpr, srt))
                hav_cells.add(v.cell)
        for o, f in sorted(fields):
            if o == "ghost":
                self.havoc_target(st, "ghost:" + f, st.env)
            elif o == "*":
                self.havoc_target(st, "heap:" + f, st.env)
            else:
                try:
                    self.havoc_target(st, o + "." + f, st.env)
                except Unsupported:
                    # the receiver is not bound at the loop head (a variable of the body): every object of its declared
                    # class may be the one written; without a declared class, every class that has a field of that name
                    lt = self.contract.get("locals", {}).get(o) or self.contract.get("types", {}).get(o)
                    done = False
                    if lt and lt.startswith("obj:"):
                        try:
                            ty, hk = self.field_info(lt[4:], f)
                            self.havoc_heap_key(st, hk, ty)
                            done = True
                        except Unsupported:
                            pass
                    if not done:
                        self.havoc_target(st, "heap:" + f, st.env)

    def havoc_val(self, st, v, n):
        if isinstance(v, T):
            return self.fresh(n, v.sort)
        if isinstance(v, ObjV):
            return ObjV(self.fresh(n, REF), v.cls)
        raise Unsupported("havoc of %r" % (v,))

    def local_elem_type(self, n):
        lt = self.contract.get("locals", {}).get(n)
        if lt:
            t = parse_type(lt)
            if t.kind == "list":
                return t.arg
        d = self.engine.default_list.get(self.module.name)
        if d:
            return parse_type(d).arg
        return None

    def loop_spec(self, ordn):
        return self.contract.get("loops", {}).get(ordn, {})

    def loop_ordinal(self, s):
        """ordinal of a loop = its position among the loops of the function under verification (source order)"""
        if self._loop_ids is None:
            self._loop_ids = {}
            n = 0
            for sub in ast.walk(self.fdef):
                pass
            for sub in sorted([x for x in ast.walk(self.fdef) if isinstance(x, (ast.For, ast.While))], key=lambda x: (x.lineno, x.col_offset)):
                n += 1
                self._loop_ids[id(sub)] = n
        if id(s) not in self._loop_ids:
            raise Unsupported("loop in an inlined callee (line %s)" % s.lineno)
        return self._loop_ids[id(s)]

    def st_For(self, s, st):
        ordn = self.loop_ordinal(s)
        spec = self.loop_spec(ordn)
        pre = self.pre
        it = self.to_iter(st, self.ev(s.iter, st))
        out = self.flush(st, pre)
        outer_i = st.ghost.get("_i")
        outer_it = st.ghost.get("_it")
        # python iterates the live list: require that the body does not mutate the iterated list
        gi = "_i%d" % ordn
        invs = spec.get("invariant", [])
        # 1. invariant on entry
        self.entry_states.append(st.fork())
        st.ghost[gi] = I(0)
        st.ghost["_i"] = I(0)
        if it.seq is not None:
            st.ghost["_it"] = ListV(self.new_cell(st, it.seq), None) if it.seq.sort != STR else it.seq
        for k, inv in enumerate(invs):
            self.prove(st, self.spec_bool(inv, st), "inv-init", s, "L%d.%d" % (ordn, k + 1))
        # 2. havoc
        tnames = [x.id for x in ast.walk(s.target) if isinstance(x, ast.Name)]
        head = st.fork()
        self.havoc_for_loop(head, s.body, tnames)
        iv = self.fresh(gi, INT)
        head.ghost[gi] = iv
        head.ghost["_i"] = iv
        head.assume(And(Le(I(0), iv), Le(iv, it.len)))
        for inv in invs:
            head.assume(self.spec_bool(inv, head))
        # 3. body from an arbitrary iteration
        body = head.fork()
        body.assume(Lt(iv, it.len))
        for t in tnames:
            body.env.pop(t, None)
        self.assign(body, s.target, it.elem(body, iv), s)
        exits = []
        body_head = body.fork()
        for c in self.exec_block(s.body, body):
            if c.kind in ("normal", "continue"):
                c.st.ghost[gi] = Add(iv, I(1))
                c.st.ghost["_i"] = Add(iv, I(1))
                for k, inv in enumerate(invs):
                    self.prove(c.st, self.spec_bool(inv, c.st), "inv-step", s, "L%d.%d" % (ordn, k + 1))
            elif c.kind == "break":
                c.st.ghost["_n%d" % ordn] = Add(iv, I(1))
                c.st.ghost["#lasthead%d" % ordn] = body_head
                exits.append(c.st)
            else:
                out.append(c)
        # 4. after the loop
        after = head
        after.assume(Eq(iv, it.len))
        after.ghost["_n%d" % ordn] = it.len
        after.ghost.pop("#lasthead%d" % ordn, None)
        self.entry_states.pop()
        for e in exits + [after]:
            if outer_i is not None:
                e.ghost["_i"] = outer_i
            if outer_it is not None:
                e.ghost["_it"] = outer_it
        if s.orelse:
            out.extend(self.exec_block(s.orelse, after))
        else:
            out.append(Completion("normal", after))
        for e in exits:
            out.append(Completion("normal", e))
        return out

    def st_While(self, s, st):
        ordn = self.loop_ordinal(s)
        spec = self.loop_spec(ordn)
        invs = spec.get("invariant", [])
        self.entry_states.append(st.fork())
        for k, inv in enumerate(invs):
            self.prove(st, self.spec_bool(inv, st), "inv-init", s, "L%d.%d" % (ordn, k + 1))
        head = st.fork()
        self.havoc_for_loop(head, s.body)
        for inv in invs:
            head.assume(self.spec_bool(inv, head))
        body = head.fork()
        prebody = body.fork()
        c = self.truth(body, self.ev(s.test, body))
        out = self.flush(body, prebody)
        body.assume(c)
        dec = spec.get("decreases")
        d0 = self.spec(dec, body) if dec else None
        exits = []
        for cpl in self.exec_block(s.body, body):
            if cpl.kind in ("normal", "continue"):
                for k, inv in enumerate(invs):
                    self.prove(cpl.st, self.spec_bool(inv, cpl.st), "inv-step", s, "L%d.%d" % (ordn, k + 1))
                if dec:
                    d1 = self.spec(dec, cpl.st)
                    self.prove(cpl.st, And(Ge(d0, I(0)), Lt(d1, d0)), "decreases", s, "L%d" % ordn)
            elif cpl.kind == "break":
                exits.append(cpl.st)
            else:
                out.append(cpl)
        self.entry_states.pop()
        after = head
        c2 = self.truth(after, self.ev(s.test, after))
        after.pending = []
        after.assume(Not(c2))
        if s.orelse:
            out.extend(self.exec_block(s.orelse, after))
        else:
            out.append(Completion("normal", after))
        for e in exits:
            out.append(Completion("normal", e))
        return out

    # -------------------------------------------------------------- try/except
    def st_Try(self, s, st):
        htypes = []
        for h in s.handlers:
            if h.type is None:
                htypes.append(None)
            elif isinstance(h.type, ast.Name):
                htypes.append(h.type.id)
            elif isinstance(h.type, ast.Attribute):
                htypes.append(h.type.attr)
            else:
                raise Unsupported("handler type")
        self.try_depth.append(htypes)
        try:
            comps = self.exec_block(s.body, st)
        finally:
            self.try_depth.pop()
        out = []
        for c in comps:
            if c.kind == "raise":
                for h, ht in zip(s.handlers, htypes):
                    if exc_matches(c.exc, ht):
                        hs = c.st
                        hs.ghost["#current_exc"] = c.exc
                        if h.name:
                            hs.env[h.name] = ObjV(self.fresh("exc", REF), "builtins." + c.exc)
                        out.extend(self.exec_block(h.body, hs))
                        break
                else:
                    out.append(c)
            elif c.kind == "normal" and s.orelse:
                out.extend(self.exec_block(s.orelse, c.st))
            else:
                out.append(c)
        if s.finalbody:
            fin = []
            for c in out:
                for fc in self.exec_block(s.finalbody, c.st):
                    if fc.kind == "normal":
                        fin.append(Completion(c.kind, fc.st, c.value, c.exc))
                    else:
                        fin.append(fc)
            out = fin
        return out

    def st_With(self, s, st):
        """`with ctx as name: body` == name = ctx; try: body finally: name.__exit__() (exit modelled by the
        contract '<class>.__exit__' if present, else a no-op)"""
        pre = self.pre
        if len(s.items) != 1:
            raise Unsupported("with several items")
        item = s.items[0]
        v = self.ev(item.context_expr, st)
        out = self.flush(st, pre)
        always = self.contract.get("always")
        if always and not self.engine.inline_stack:
            for c in out + [Completion("normal", st)]:
                for k, inv in enumerate(always):
                    self.prove(c.st, self.spec_bool(inv, c.st), "crash-point", s, "line%d.%d" % (s.lineno, k + 1))
        if item.optional_vars is not None:
            self.assign(st, item.optional_vars, v, s)
        for c in self.exec_block(s.body, st):
            out.append(c)
        return out

    # ------------------------------------------------------------ entry point
    def run(self):
        # names of fresh constants restart for every function: the verification conditions of a function are then the same text
        # whatever was verified before in this process (solver run times depend on names and on the order they induce)
        global _counter
        _counter = itertools.count(1)
        eng = self.engine
        ct = self.contract
        st = State()
        fdef = self.fdef
        names = [a.arg for a in fdef.args.args]
        types = dict(ct.get("types", {}))
        for n in names:
            if n == "self" and n not in types and self.cls:
                types[n] = "obj:" + self.module.name + "." + self.cls
            if n not in types:
                raise Unsupported("parameter %s has no declared type" % n)
            st.env[n] = self.fresh_value(st, parse_type(types[n]), n)
        # ghost state (global ghost variables of the contract files) and ghost parameters
        for g, gt in eng.ghosts.items():
            st.ghost[g] = self.fresh_value(st, parse_type(gt), "ghost_" + g)
        for g, gt in ct.get("ghost", {}).items():
            st.ghost[g] = self.fresh_value(st, parse_type(gt), g)
        for f in ct.get("reads", []):
            pass
        for r in ct.get("requires", []):
            st.assume(self.spec_bool(r, st))
        for r in ct.get("assume", []):
            st.assume(self.spec_bool(r, st))
        st0 = st.fork()
        self.old_state = st0
        # reachability of the precondition
        self.obls.append(Obl(self.qual + "#reach@pre", st.ctx(), FALSE, "reach", self.qual, fdef))
        comps = self.exec_block(fdef.body, st)
        allowed = ct.get("raises", "nothing")
        for c in comps:
            # in a postcondition a parameter name denotes the argument the caller passed (the object it had at entry, with
            # whatever was done to it), never a value the body re-bound the name to: that is how call sites read it
            for pn in names:
                if pn in st0.env:
                    c.st.env[pn] = st0.env[pn]
            if c.kind in ("normal", "return"):
                val = c.value if c.kind == "return" else NONE
                rt = ct.get("returns")
                for g, gexpr in ct.get("ghost_exit", {}).items():
                    # ghost code (specification only): executed at every normal exit
                    gv = self.spec(gexpr, c.st, old=st0)
                    c.st.ghost[g] = gv
                if rt and isinstance(val, NoneV) and parse_type(rt).kind not in ("opt", "none"):
                    self.prove(c.st, FALSE, "post", fdef, "returns-" + rt)
                    continue
                for k, e in enumerate(ct.get("ensures", [])):
                    goal = self.spec_bool(e, c.st, old=st0, result=val)
                    self.prove(c.st, goal, "post", fdef, str(k + 1))
                # raises_when is an exact condition (call sites assume it both ways): a normal exit means it did not hold at entry
                if not ct.get("trusted"):
                    for exc, cond in sorted(ct.get("raises_when", {}).items()):
                        self.prove(c.st, Not(self.spec_bool("old(%s)" % cond, c.st, old=st0)), "post", fdef, "returns-only-unless-" + exc)
                if rt:
                    self.check_return_type(c.st, val, parse_type(rt))
            elif c.kind == "raise":
                if allowed == "nothing" or not any(exc_matches(c.exc, a) for a in allowed):
                    self.prove(c.st, FALSE, "no-raise", fdef, c.exc)
                else:
                    for k, e in enumerate(ct.get("ensures_on_raise", {}).get(c.exc, [])):
                        self.prove(c.st, self.spec_bool(e, c.st, old=st0), "post-raise", fdef, "%s.%d" % (c.exc, k + 1))
                    if not ct.get("trusted"):
                        for exc, cond in sorted(ct.get("raises_when", {}).items()):
                            if exc_matches(c.exc, exc):
                                self.prove(c.st, self.spec_bool("old(%s)" % cond, c.st, old=st0), "post-raise", fdef, "%s.only-when" % c.exc)
            else:
                raise Unsupported("break/continue outside loop")
        # frame: anything modified must be declared
        self.check_frame(st0, comps)
        return self.obls

    def check_return_type(self, st, val, ty):
        if ty.kind == "none":
            return
        if isinstance(val, NoneV) and ty.kind != "opt":
            self.prove(st, FALSE, "post", self.fdef, "returns-" + ty.kind)

    def check_frame(self, st0, comps):
        ct = self.contract
        declared = set(ct.get("modifies", []))
        # list parameters
        for n, v in st0.env.items():
            if isinstance(v, ListV) and n not in declared:
                for c in comps:
                    if c.kind in ("normal", "return") and v.cell in c.st.cells:
                        a, b = st0.cells[v.cell][0], c.st.cells[v.cell][0]
                        if str(a) != str(b):
                            self.prove(c.st, Eq(a, b), "frame", self.fdef, n)
        # heap fields
        declared_keys = set()
        for d in declared:
            if d.startswith("heap:"):
                declared_keys |= set(hk for ty, hk in self.heap_keys_of(d[5:]))
        for c in comps:
            if c.kind not in ("normal", "return"):
                continue
            for f, arr in c.st.heap.items():
                a0 = st0.heap.get(f)
                if a0 is None:
                    # the field was first touched after the entry state was taken: its entry value is the lazily created
                    # array constant of heap_arr
                    pre0 = st0.ghost.get("#heap_prefix", "H_")
                    a0 = Const((pre0 + f[:-1] + "_isnone!0") if f.endswith("?") else (pre0 + f + "!0"), arr.sort)
                if str(a0) == str(arr):
                    continue
                if f.rstrip("?") in declared_keys:
                    continue
                # written locations must be declared as obj.f
                locs = []
                t = arr
                ok = True
                while str(t) != str(a0):
                    if t.op == "store":
                        locs.append(t.args[1])
                        t = t.args[0]
                    else:
                        ok = False
                        break
                if not ok:
                    self.prove(c.st, Eq(arr, a0), "frame", self.fdef, "heap:" + f)
                    continue
                dterms = []
                for d in declared:
                    if d.startswith("heap:") or d.startswith("ghost:") or "." not in d:
                        continue
                    dn = ast.parse(d, mode="eval").body
                    sub = st0.fork()
                    self.spec_mode += 1
                    try:
                        o = self.ev(dn.value, sub)
                    finally:
                        self.spec_mode -= 1
                    if isinstance(o, ObjV) and self.field_info(o.cls, dn.attr)[1] == f.rstrip("?"):
                        dterms.append(o.term)
                for loc in locs:
                    if any(str(loc) == str(d) for d in dterms):
                        continue
                    fresh_ok = str(loc) in c.st.ghost.get("#allocated", ())
                    if fresh_ok:
                        continue
                    self.prove(c.st, Or(*[Eq(loc, d) for d in dterms]) if dterms else FALSE, "frame", self.fdef, f.rstrip("?"))
