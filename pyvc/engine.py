# -*- coding: utf-8 -*-
"""Engine: contract registry + hooks + parallel discharge of obligations."""
import ast
import importlib.util
import json
import os
import time
import traceback
from concurrent.futures import ProcessPoolExecutor

from . import lemmas, solver
from .repo import Repo, ast_hash
from .symex import Obl, Run, Unsupported, UFS
from .terms import BOOL, FALSE, INT, REF, STR, TRUE, App, Const, Eq, I, Not, S, Seq, T
from .values import NONE, ClassV, FuncV, ListV, ObjV, OptV, TupleV, Type, parse_type

HERE = os.path.dirname(os.path.abspath(__file__))
CONTRACT_DIR = os.path.join(os.path.dirname(HERE), "contracts")


class Engine(object):
    def __init__(self, repo_root=None, contract_files=None):
        self.repo = Repo(repo_root)
        os.environ["PYVC_REPO_ROOT"] = self.repo.root  # contract files that derive contracts mechanically from the source read it
        self.contracts = {}
        self.fields = {}
        self.default_list = {}
        self.inline_stack = []
        self.spec_funcs = {}
        self.trusted = []
        self.class_hooks = {}
        self.homs = {}
        self.spec_imports = {"parser": "vsg.parser", "token": "vsg.token", "severity": "vsg.severity"}
        self.lemma_defs = {}
        self.ghosts = {}
        self.hom_templates = {}
        self._classinfo = None
        self.install_spec_funcs()
        files = contract_files
        if files is None:
            files = sorted(f for f in os.listdir(CONTRACT_DIR) if f.endswith(".py") and not f.startswith("_"))
        for f in files:
            self.load_contract_file(os.path.join(CONTRACT_DIR, f))

    def load_contract_file(self, path):
        spec = importlib.util.spec_from_file_location("contracts_" + os.path.basename(path)[:-3], path)
        mod = importlib.util.module_from_spec(spec)
        spec.loader.exec_module(mod)
        for q, c in getattr(mod, "CONTRACTS", {}).items():
            c = dict(c)
            c["_file"] = os.path.basename(path)
            self.contracts[q] = c
        self.fields.update(getattr(mod, "FIELDS", {}))
        self.fields.setdefault("builtins.dict.__keys__", "map[str,bool]")
        self.fields.setdefault("builtins.dict.__vals__", "map[str,obj]")
        self.default_list.update(getattr(mod, "DEFAULT_LIST", {}))
        self.trusted.extend(getattr(mod, "TRUSTED", []))
        self.homs.update(getattr(mod, "HOMS", {}))
        self.lemma_defs.update(getattr(mod, "LEMMAS", {}))
        self.ghosts.update(getattr(mod, "GHOSTS", {}))
        if hasattr(mod, "install"):
            mod.install(self)

    # -------------------------------------------------------------- classes
    def mro(self, cls):
        out = []
        todo = [cls]
        while todo:
            c = todo.pop(0)
            if c in out or c is None:
                continue
            out.append(c)
            r = self.repo.resolve(c)
            if not r or r[0] != "class":
                continue
            mod, name = r[1], r[2]
            for b in mod.classes[name].bases:
                bn = ast.unparse(b)
                head = bn.split(".")[0]
                if head in mod.classes:
                    todo.append(mod.name + "." + bn)
                elif head in mod.imports:
                    todo.append(mod.imports[head] + bn[len(head):])
        return out

    def init_literal_type(self, cls, f):
        """type of `self.<f> = <literal>` in the __init__ of exactly this class: 'bool' / 'int' / 'str', else None"""
        r = self.repo.resolve(cls)
        if not r or r[0] != "class":
            return None
        for node in r[1].classes[r[2]].body:
            if isinstance(node, ast.FunctionDef) and node.name == "__init__":
                found = None
                for st in ast.walk(node):
                    if isinstance(st, ast.Assign) and len(st.targets) == 1:
                        t = st.targets[0]
                        if isinstance(t, ast.Attribute) and isinstance(t.value, ast.Name) and t.value.id == "self" and t.attr == f:
                            v = st.value
                            if isinstance(v, ast.Constant) and type(v.value) in (bool, int, str):
                                ty = {bool: "bool", int: "int", str: "str"}[type(v.value)]
                                if found not in (None, ty):
                                    return None
                                found = ty
                            else:
                                return None
                return found
        return None

    def find_method(self, cls, name):
        for c in self.mro(cls):
            r = self.repo.resolve(c + "." + name)
            if r and r[0] == "func":
                return r[1].name + "." + r[2]
        return None

    def class_rules(self, templates):
        """picklable class-hierarchy facts for the lemma instantiator: relations between every pair of isa_*
        predicates that occur in the registered UFS, and the ids of each predicate's descendants"""
        preds = sorted(n[4:].replace("__", ".") for n in UFS if n.startswith("isa_"))
        if not preds:
            return None
        ci = self.classinfo()
        preds = [q for q in preds if q in ci.desc]
        rel = {}
        for i, a in enumerate(preds):
            for b in preds[i + 1 :]:
                r = ci.relation(a, b)
                if r != "overlap":
                    rel[(a, b)] = r
        ids = {q: ci.ids(q) for q in preds if len(ci.ids(q)) <= 800}
        return {"rel": rel, "ids": ids}

    def side_axioms(self, terms):
        """class-hierarchy facts for the isa_* / cls terms of one VC, from the real class table"""
        from .terms import And, Implies, Not, Or, subterms

        seen = {}
        for t in terms:
            subterms(t, seen)
        per_obj = {}
        clsterms = {}
        for t in seen.values():
            if "!q" in str(t.args[0]) if t.args and hasattr(t.args[0], "op") else False:
                continue
            if t.op.startswith("isa_"):
                per_obj.setdefault(str(t.args[0]), (t.args[0], {}))[1][t.op[4:].replace("__", ".")] = t
            elif t.op == "cls":
                clsterms[str(t.args[0])] = t
        if not per_obj:
            return []
        ci = self.classinfo()
        out = []
        for k, (obj, preds) in per_obj.items():
            qs = [q for q in preds if q in ci.desc]
            for i, a in enumerate(qs):
                for b in qs[i + 1 :]:
                    rel = ci.relation(a, b)
                    if rel == "subset":
                        out.append(Implies(preds[a], preds[b]))
                    elif rel == "superset":
                        out.append(Implies(preds[b], preds[a]))
                    elif rel == "disjoint":
                        out.append(Not(And(preds[a], preds[b])))
            if k in clsterms:
                for q in qs:
                    ids = ci.ids(q)
                    if len(ids) <= 800:
                        out.append(Eq(preds[q], Or(*[Eq(clsterms[k], I(i)) for i in ids])))
        return out

    # ---------------------------------------------------------------- hooks
    def classinfo(self):
        if self._classinfo is None:
            from .classes import ClassInfo

            self._classinfo = ClassInfo(self.repo.root)
        return self._classinfo

    def class_id(self, qual):
        ci = self.classinfo()
        if qual in ci.classes:
            return ci.cid(qual)
        self._extra_ids = getattr(self, "_extra_ids", {})
        return self._extra_ids.setdefault(qual, 100000 + len(self._extra_ids))

    def isinstance_hook(self, run, st, obj, cls, node):
        from .terms import And, Not, Or

        classes = cls.items if isinstance(cls, TupleV) else [cls]
        guard = None
        if isinstance(obj, OptV):
            guard = Not(obj.isnone)
            obj = obj.val
        if not isinstance(obj, ObjV):
            raise Unsupported("isinstance of %r" % (obj,))
        outs = []
        for c in classes:
            if isinstance(c, ObjV) and c.cls is None:
                # a class object that is only known as an opaque value (an element of a list of classes): the test is an
                # uninterpreted relation between the object and that value
                UFS["isa_dyn"] = ([REF, REF], BOOL)
                outs.append(App("isa_dyn", (obj.term, c.term), BOOL))
                continue
            if not isinstance(c, ClassV):
                raise Unsupported("isinstance with non-class")
            if c.qual == "builtins.dict":
                UFS["isdict"] = ([REF], BOOL)
                outs.append(TRUE if obj.cls == "builtins.dict" else App("isdict", (obj.term,), BOOL))
                continue
            nm = "isa_" + c.qual.replace(".", "__")
            UFS[nm] = ([REF], BOOL)
            outs.append(App(nm, (obj.term,), BOOL))
        r = Or(*outs)
        return And(guard, r) if guard is not None else r

    def construct_token(self, run, st, cv, args, kwargs, node):
        """token classes: constructor behaviour derived by probing the real constructor (classes.py):
        the value is the given string (522 classes) or the class's fixed lexeme (227 classes)"""
        from .terms import Ne

        ent = self.classinfo().classes[cv.qual]
        if "error" in ent:
            raise Unsupported("constructor of %s could not be probed" % cv.qual)
        ref = run.fresh("new_" + cv.qual.split(".")[-1], REF)
        st.ghost["#allocated"] = set(st.ghost.get("#allocated", ())) | {str(ref)}
        for v in list(st.env.values()):
            if isinstance(v, ObjV):
                st.assume(Ne(ref, v.term))
        UFS["cls"] = ([REF], INT)
        st.assume(Eq(App("cls", (ref,), INT), I(ent["id"])))
        obj = ObjV(ref, cv.qual)
        if len(args) > ent["npar"]:
            raise Unsupported("too many constructor arguments for " + cv.qual)
        if ent["keeps"]:
            if args:
                val = args[0]
            elif "default" in ent and ent["default"] is not None:
                val = S(ent["default"])
            else:
                # python raises TypeError: missing argument
                run.check(st, FALSE, "TypeError", node)
                raise Unsupported("constructor of %s needs a value" % cv.qual)
        else:
            if args and ent["npar"] == 0:
                run.check(st, FALSE, "TypeError", node)
                raise Unsupported("constructor of %s takes no value" % cv.qual)
            val = S(ent["fixed"])
        for f, v in (("value", val), ("code_tags", None), ("indent", NONE), ("iId", NONE)):
            try:
                run.field_info(cv.qual, f)
            except Unsupported:
                continue
            if f == "code_tags":
                from .values import ListV as _L, Type as _T
                from .terms import Empty

                v = _L(run.new_cell(st, Empty(STR)), _T("str"))
            run.write_field(st, obj, f, v, node)
        if "lower_value" in "".join(self.fields):
            try:
                run.field_info(cv.qual, "lower_value")
                run.write_field(st, obj, "lower_value", App("lower", (run.raw(st, val),), STR), node)
            except Unsupported:
                pass
        return obj

    def construct_hook(self, run, st, cv, args, kwargs, node):
        if cv.qual in self.classinfo().classes:
            return self.construct_token(run, st, cv, args, kwargs, node)
        # generic: allocate a fresh object and run __init__ inline
        ref = run.fresh("new_" + cv.qual.split(".")[-1], REF)
        st.ghost["#allocated"] = set(st.ghost.get("#allocated", ())) | {str(ref)}
        # a newly allocated object is distinct from every object that is already named in the environment
        from .terms import Ne

        for v in list(st.env.values()):
            if isinstance(v, ObjV):
                st.assume(Ne(ref, v.term))
        obj = ObjV(ref, cv.qual)
        init = self.find_method(cv.qual, "__init__")
        if init:
            run.call_function(st, init, [obj] + args, kwargs, node)
        return obj

    def with_hook(self, run, s, st):
        raise Unsupported("with statement")

    # ----------------------------------------------------------- spec funcs
    def install_spec_funcs(self):
        def sf_J(run, st, args, node):
            (a,) = args
            v = st.cells[a.cell][0] if isinstance(a, ListV) else a
            if v is None:
                return S("")
            return App("J", (v,), STR)

        def pred(name):
            def f(run, st, args, node):
                return App(name, (run.raw(st, args[0]),), BOOL)

            return f

        def sf_irange(run, st, args, node):
            a, b = args
            return ListV(run.new_cell(st, App("irange", (a, b), Seq(INT))), Type("int"))

        def sf_store(run, st, args, node):
            from .terms import Store

            a, k, v = args
            return Store(a, run.raw(st, k), run.raw(st, v))

        self.spec_funcs["store"] = sf_store
        self.spec_funcs["irange"] = sf_irange
        UFS["irange"] = ([INT, INT], Seq(INT))
        self.spec_funcs["J"] = sf_J
        self.spec_funcs["isspace"] = pred("isspace")
        self.spec_funcs["isdigit"] = pred("isdigit")

    def verify_lemma(self, name):
        """a lemma is `forall vars: requires => ensures` over the spec vocabulary; proved like a postcondition"""
        from .symex import State

        d = self.lemma_defs[name]
        run = Run.__new__(Run)
        Run._init_bare(run, self, "lemma." + name)
        st = State()
        for g, gt in self.ghosts.items():
            st.ghost[g] = run.fresh_value(st, parse_type(gt), "ghost_" + g)
        for v, t in d["vars"].items():
            st.env[v] = run.fresh_value(st, parse_type(t), v)
        for r in d.get("requires", []):
            st.assume(run.spec_bool(r, st))
        run.obls.append(Obl("lemma." + name + "#reach@pre", st.ctx(), FALSE, "reach", "lemma." + name))
        for k, e in enumerate(d["ensures"]):
            run.prove(st, run.spec_bool(e, st), "lemma", None, str(k + 1))
        return run.obls

    # --------------------------------------------------------------- verify
    def verify_function(self, qual):
        """returns dict(qual, status, obligations=[Obl], reason, meta)"""
        res = {"qual": qual, "status": "ok", "obligations": [], "reason": None}
        # a list local the contract does not declare (e.g. one a change to the code introduced): its element type is tried out
        import re as _re

        saved_ct = self.contracts.get(qual)
        guesses = {}
        try:
            while True:
                try:
                    run = Run(self, qual)
                    res["hash"] = ast_hash(run.fdef)
                    res["file"] = os.path.relpath(run.module.path, self.repo.root)
                    res["line"] = run.fdef.lineno
                    obls = run.run()
                    res["obligations"] = obls
                    res["inlined"] = sorted(run.inlined)
                    res["called"] = sorted(run.called)
                    if guesses:
                        res["guessed_local_types"] = dict(guesses)
                    return res
                except Unsupported as e:
                    m = _re.search(r"list (\w+) (?:mutated|reassigned) in loop has no known element type", str(e))
                    order = ["list[str]", "list[int]", "list[obj]"]
                    if not m or saved_ct is None:
                        raise
                    nm = m.group(1)
                    nxt = order[order.index(guesses[nm]) + 1] if nm in guesses and order.index(guesses[nm]) + 1 < len(order) else (None if nm in guesses else order[0])
                    if nxt is None:
                        raise
                    guesses[nm] = nxt
                    ct2 = dict(self.contracts[qual])
                    ct2["locals"] = dict(ct2.get("locals", {}), **{nm: nxt})
                    self.contracts[qual] = ct2
        except Unsupported as e:
            res["status"] = "rejected"
            res["reason"] = str(e)
            return res
        finally:
            if saved_ct is not None:
                self.contracts[qual] = saved_ct
        try:
            run = Run(self, qual)
            res["hash"] = ast_hash(run.fdef)
            res["file"] = os.path.relpath(run.module.path, self.repo.root)
            res["line"] = run.fdef.lineno
            obls = run.run()
            res["obligations"] = obls
            res["inlined"] = sorted(run.inlined)
            res["called"] = sorted(run.called)
        except Unsupported as e:
            res["status"] = "rejected"
            res["reason"] = str(e)
        return res


def discharge_one(job):
    name, assumptions, goal, timeout, kind, templates, ufs, decls = job
    t0 = time.time()
    try:
        # constants the assumptions equate (e.g. a ghost list and the parameter a precondition identifies with it) are merged:
        # the ground lemma rules match terms syntactically
        from .terms import subst as _subst

        ren = {}
        for a_ in assumptions:
            if a_.op == "=" and len(a_.args) == 2 and a_.args[0].op == "#const" and a_.args[1].op == "#const" and a_.args[0].sort == a_.args[1].sort:
                x, y = a_.args[0], a_.args[1]
                x = ren.get(x.args[0], x)
                y = ren.get(y.args[0], y)
                if str(x) != str(y) and "!q" not in str(x) + str(y):
                    ren[y.args[0]] = x
                    for k_ in list(ren):
                        if str(ren[k_]) == str(y):
                            ren[k_] = x
        if ren:
            assumptions = [_subst(a_, ren) for a_ in assumptions]
            goal = _subst(goal, ren)
        inst = lemmas.instantiate(assumptions + [goal], templates=templates)
        r = None
        if any(a.op == "#forall" for a in assumptions) and kind != "reach":
            # first attempt without the quantified assumptions (their ground instances are kept): a weaker set of
            # assumptions, so `unsat` is still a proof; quantifier-free queries are fast and stable
            qf = [a for a in assumptions if a.op != "#forall"]
            query, consts = solver.build_query(decls, qf + inst, goal, ufs)
            r = solver.solve(query, consts, timeout=min(timeout, 8), want_model=False)
            r["qf_attempt"] = True
            if r["verdict"] != "unsat":
                first_log = r["log"]
                r = None
        if r is None:
            query, consts = solver.build_query(decls, assumptions + inst, goal, ufs)
            r = solver.solve(query, consts, timeout=timeout, want_model=True)
        r["name"] = name
        r["kind"] = kind
        r["n_lemmas"] = len(inst)
        r["wall"] = time.time() - t0
        r["query_size"] = len(query)
        if r["verdict"] != "unsat":
            r["query"] = query
        return r
    except Exception as e:  # checker fault, never a verdict
        return {"name": name, "kind": kind, "verdict": "error", "error": traceback.format_exc(), "wall": time.time() - t0, "log": []}


VAL_DECL = "(declare-datatypes ((Val 0)) (((VInt (vint Int)) (VStr (vstr String)))))"


def discharge(obls, timeout=10, workers=None, engine=None):
    templates = dict(engine.hom_templates) if engine is not None else {}
    ufs = dict(UFS)
    jobs = []
    clsinfo = engine.class_rules(templates) if engine is not None else None
    if clsinfo is not None:
        templates = dict(templates)
        templates["#classes"] = clsinfo
    for o in obls:
        jobs.append((o.name, o.assumptions, o.goal, timeout, o.kind, templates, ufs, [VAL_DECL]))
    workers = workers or min(16, os.cpu_count() or 4)
    out = []
    if not jobs:
        return out
    with ProcessPoolExecutor(max_workers=workers) as ex:
        for r in ex.map(discharge_one, jobs, chunksize=1):
            out.append(r)
    return out
