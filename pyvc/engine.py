# -*- coding: utf-8 -*-
"""Engine: contract registry + hooks + parallel discharge of obligations."""
import ast
import importlib.util
import json
import os
import time
import traceback
from concurrent.futures import ProcessPoolExecutor

from . import lemmas, solver
from .repo import Repo, ast_hash
from .symex import Obl, Run, Unsupported, UFS
from .terms import BOOL, FALSE, INT, REF, STR, TRUE, App, Const, Eq, I, Not, S, Seq, T
from .values import NONE, ClassV, FuncV, ListV, ObjV, OptV, TupleV, Type, parse_type

HERE = os.path.dirname(os.path.abspath(__file__))
CONTRACT_DIR = os.path.join(os.path.dirname(HERE), "contracts")


class Engine(object):
    def __init__(self, repo_root=None, contract_files=None):
        self.repo = Repo(repo_root)
        self.contracts = {}
        self.fields = {}
        self.default_list = {}
        self.inline_stack = []
        self.spec_funcs = {}
        self.trusted = []
        self.class_hooks = {}
        self.install_spec_funcs()
        files = contract_files
        if files is None:
            files = sorted(f for f in os.listdir(CONTRACT_DIR) if f.endswith(".py") and not f.startswith("_"))
        for f in files:
            self.load_contract_file(os.path.join(CONTRACT_DIR, f))

    def load_contract_file(self, path):
        spec = importlib.util.spec_from_file_location("contracts_" + os.path.basename(path)[:-3], path)
        mod = importlib.util.module_from_spec(spec)
        spec.loader.exec_module(mod)
        for q, c in getattr(mod, "CONTRACTS", {}).items():
            c = dict(c)
            c["_file"] = os.path.basename(path)
            self.contracts[q] = c
        self.fields.update(getattr(mod, "FIELDS", {}))
        self.default_list.update(getattr(mod, "DEFAULT_LIST", {}))
        self.trusted.extend(getattr(mod, "TRUSTED", []))
        if hasattr(mod, "install"):
            mod.install(self)

    # -------------------------------------------------------------- classes
    def mro(self, cls):
        out = []
        todo = [cls]
        while todo:
            c = todo.pop(0)
            if c in out or c is None:
                continue
            out.append(c)
            r = self.repo.resolve(c)
            if not r or r[0] != "class":
                continue
            mod, name = r[1], r[2]
            for b in mod.classes[name].bases:
                bn = ast.unparse(b)
                head = bn.split(".")[0]
                if head in mod.classes:
                    todo.append(mod.name + "." + bn)
                elif head in mod.imports:
                    todo.append(mod.imports[head] + bn[len(head):])
        return out

    def find_method(self, cls, name):
        for c in self.mro(cls):
            r = self.repo.resolve(c + "." + name)
            if r and r[0] == "func":
                return r[1].name + "." + r[2]
        return None

    # ---------------------------------------------------------------- hooks
    def isinstance_hook(self, run, st, obj, cls, node):
        raise Unsupported("isinstance not configured")

    def construct_hook(self, run, st, cv, args, kwargs, node):
        # generic: allocate a fresh object and run __init__ inline
        ref = run.fresh("new_" + cv.qual.split(".")[-1], REF)
        st.ghost["#allocated"] = set(st.ghost.get("#allocated", ())) | {str(ref)}
        obj = ObjV(ref, cv.qual)
        init = self.find_method(cv.qual, "__init__")
        if init:
            run.call_function(st, init, [obj] + args, kwargs, node)
        return obj

    def with_hook(self, run, s, st):
        raise Unsupported("with statement")

    # ----------------------------------------------------------- spec funcs
    def install_spec_funcs(self):
        def sf_J(run, st, args, node):
            (a,) = args
            v = st.cells[a.cell][0] if isinstance(a, ListV) else a
            if v is None:
                return S("")
            return App("J", (v,), STR)

        def pred(name):
            def f(run, st, args, node):
                return App(name, (run.raw(st, args[0]),), BOOL)

            return f

        self.spec_funcs["J"] = sf_J
        self.spec_funcs["isspace"] = pred("isspace")
        self.spec_funcs["isdigit"] = pred("isdigit")

    # --------------------------------------------------------------- verify
    def verify_function(self, qual):
        """returns dict(qual, status, obligations=[Obl], reason, meta)"""
        res = {"qual": qual, "status": "ok", "obligations": [], "reason": None}
        try:
            run = Run(self, qual)
            res["hash"] = ast_hash(run.fdef)
            res["file"] = os.path.relpath(run.module.path, self.repo.root)
            res["line"] = run.fdef.lineno
            obls = run.run()
            res["obligations"] = obls
            res["inlined"] = sorted(run.inlined)
            res["called"] = sorted(run.called)
        except Unsupported as e:
            res["status"] = "rejected"
            res["reason"] = str(e)
        return res


def discharge_one(job):
    name, assumptions, goal, timeout, kind = job
    t0 = time.time()
    try:
        inst = lemmas.instantiate(assumptions + [goal])
        query, consts = solver.build_query([], assumptions + inst, goal, UFS)
        r = solver.solve(query, consts, timeout=timeout, want_model=True)
        r["name"] = name
        r["kind"] = kind
        r["n_lemmas"] = len(inst)
        r["wall"] = time.time() - t0
        r["query_size"] = len(query)
        if r["verdict"] != "unsat":
            r["query"] = query
        return r
    except Exception as e:  # checker fault, never a verdict
        return {"name": name, "kind": kind, "verdict": "error", "error": traceback.format_exc(), "wall": time.time() - t0, "log": []}


def discharge(obls, timeout=10, workers=None):
    jobs = [(o.name, o.assumptions, o.goal, timeout, o.kind) for o in obls]
    workers = workers or min(16, os.cpu_count() or 4)
    out = []
    if not jobs:
        return out
    with ProcessPoolExecutor(max_workers=workers) as ex:
        for r in ex.map(discharge_one, jobs, chunksize=1):
            out.append(r)
    return out
