# -*- coding: utf-8 -*-
"""Seeded-mutant self test: apply a textual change to a scratch copy of /repo/vsg and
re-run the verifier on it; a mutant that breaks the contract must fail an obligation."""
import os
import shutil
import tempfile


def scratch_copy(repo="/repo"):
    d = tempfile.mkdtemp(prefix="pyvc_mut_")
    shutil.copytree(os.path.join(repo, "vsg"), os.path.join(d, "vsg"), ignore=shutil.ignore_patterns("__pycache__"))
    return d


def apply(root, rel, old, new):
    p = os.path.join(root, rel)
    s = open(p, encoding="utf-8").read()
    if s.count(old) != 1:
        raise RuntimeError("mutant anchor occurs %d times in %s" % (s.count(old), rel))
    open(p, "w", encoding="utf-8").write(s.replace(old, new))
