# -*- coding: utf-8 -*-
"""Class table of the token classes, computed on every run from the REAL classes of the tree under
verification (import in a subprocess with PYTHONPATH=<root>): ids, subclass relation, constructor
behaviour (probed: does the constructor keep the given string or install a fixed lexeme)."""
import json
import os
import subprocess
import sys

DUMP = r'''
import importlib, inspect, json, pkgutil, sys
import vsg
from vsg import parser
mods = [parser]
import vsg.token
for m in pkgutil.walk_packages(vsg.token.__path__, "vsg.token."):
    try:
        mods.append(importlib.import_module(m.name))
    except Exception as e:
        pass
classes = {}
for m in mods:
    for n, c in inspect.getmembers(m, inspect.isclass):
        if c.__module__ != m.__name__:
            continue
        if not issubclass(c, parser.item):
            continue
        classes[c.__module__ + "." + c.__name__] = c
out = {}
PROBE = "ZqProbeQz"
for i, (q, c) in enumerate(sorted(classes.items())):
    ent = {"id": i + 1, "mro": [b.__module__ + "." + b.__name__ for b in c.__mro__ if b is not object]}
    try:
        sig = inspect.signature(c.__init__)
        nargs = len([p for p in list(sig.parameters.values())[1:] if p.default is inspect._empty])
        npar = len(list(sig.parameters.values())[1:])
    except Exception:
        nargs, npar = 1, 1
    ent["nargs"] = nargs
    ent["npar"] = npar
    try:
        o = c(PROBE) if npar >= 1 else c()
        ent["keeps"] = (o.value == PROBE)
        ent["fixed"] = None if o.value == PROBE else o.value
        if npar >= 1 and nargs == 0:
            o2 = c()
            ent["default"] = o2.value
        ent["uid"] = list(o.get_unique_id())
    except Exception as e:
        ent["error"] = repr(e)
    out[q] = ent
print(json.dumps({"file": vsg.__file__, "classes": out}))
'''


def dump(root):
    env = dict(os.environ)
    env["PYTHONPATH"] = root
    p = subprocess.run([sys.executable, "-W", "ignore", "-c", DUMP], capture_output=True, text=True, env=env, cwd=root, timeout=300)
    if p.returncode != 0:
        raise RuntimeError("class table dump failed: " + p.stderr[-2000:])
    d = json.loads(p.stdout.strip().split("\n")[-1])
    if not os.path.abspath(d["file"]).startswith(os.path.abspath(root)):
        raise RuntimeError("class table came from %s, expected under %s" % (d["file"], root))
    return d["classes"]


class ClassInfo(object):
    def __init__(self, root):
        self.classes = dump(root)
        self.desc = {}
        for q, e in self.classes.items():
            for b in e["mro"]:
                self.desc.setdefault(b, set()).add(q)

    def ids(self, qual):
        return sorted(self.classes[q]["id"] for q in self.desc.get(qual, ()))

    def cid(self, qual):
        return self.classes[qual]["id"]

    def relation(self, a, b):
        da, db = self.desc.get(a, set()), self.desc.get(b, set())
        if da <= db:
            return "subset"
        if db <= da:
            return "superset"
        if not (da & db):
            return "disjoint"
        return "overlap"
