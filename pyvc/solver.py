# -*- coding: utf-8 -*-
"""Solver portfolio: SMT-LIB text -> cvc5 / z3-new / z3 CLIs.

verdicts: 'unsat' (discharged), 'sat' (refuted, model text kept), 'unknown'.
An obligation is discharged when ANY solver says unsat (assumption A6).
"""
import os
import re
import subprocess
import tempfile
import time

from .terms import consts_of, sort_str

SOLVERS = [
    ("cvc5", ["/usr/bin/cvc5", "--lang", "smt2", "--strings-exp", "--produce-models"]),
    ("z3-new", ["z3-new", "-smt2"]),
    ("z3", ["/usr/bin/z3", "-smt2"]),
]

PRELUDE = """(set-logic ALL)
(set-option :produce-models true)
"""


def build_query(decls_extra, assumptions, goal, ufs):
    """assumptions: list of T; goal: T (we assert its negation). ufs: dict name->(argsorts, ressort)"""
    from .terms import Not

    terms = list(assumptions) + [goal]
    consts = consts_of(terms)
    text = "".join(str(t) for t in terms) + " ".join(sort_str(x) for x in consts.values())
    out = [PRELUDE]
    for d in decls_extra:
        if "declare-datatypes ((Val" in d and not ("VInt" in text or "VStr" in text or "VNone" in text or " Val" in text):
            continue
        out.append(d)
    for name, (args, res) in sorted(ufs.items()):
        if re.search(r"\(%s[ )]" % re.escape(name), text):
            out.append("(declare-fun %s (%s) %s)" % (name, " ".join(sort_str(a) for a in args), sort_str(res)))
    for name, srt in sorted(consts.items()):
        out.append("(declare-const %s %s)" % (name, sort_str(srt)))
    for a in assumptions:
        out.append("(assert %s)" % a)
    out.append("(assert %s)" % Not(goal))
    out.append("(check-sat)")
    return "\n".join(out) + "\n", consts


def run_one(cmd, path, timeout):
    t0 = time.time()
    try:
        p = subprocess.run(cmd + [path], capture_output=True, text=True, timeout=timeout)
        out = (p.stdout or "") + (p.stderr or "")
    except subprocess.TimeoutExpired:
        return "timeout", "", time.time() - t0
    first = out.strip().split("\n")[0].strip() if out.strip() else ""
    if first in ("sat", "unsat", "unknown"):
        return first, out, time.time() - t0
    return "error", out, time.time() - t0


def solve(query, consts, timeout=10, want_model=True, order=None):
    """returns dict(verdict, solver, seconds, model, log).  cvc5 and z3-new run concurrently (first definitive answer
    wins, the other is killed); /usr/bin/z3 is tried afterwards if both gave up."""
    fd, path = tempfile.mkstemp(suffix=".smt2", prefix="pyvc_")
    os.close(fd)
    log = []
    res = {"verdict": "unknown", "solver": None, "seconds": 0.0, "model": None, "log": log}
    try:
        q = query
        if want_model:
            names = " ".join(sorted(consts))
            if names:
                q = query + "(get-value (%s))\n" % names
        with open(path, "w") as f:
            f.write(q)
        t0 = time.time()
        first = [s for s in SOLVERS if s[0] in ("cvc5", "z3-new") and (order is None or s[0] in order)]
        procs = []
        for name, cmd in first:
            extra = ["--tlimit=%d" % int(timeout * 1000)] if name == "cvc5" else ["-T:%d" % int(timeout)]
            procs.append((name, subprocess.Popen(cmd + extra + [path], stdout=subprocess.PIPE, stderr=subprocess.STDOUT, text=True), time.time()))
        pending = list(procs)
        answer = None
        while pending and answer is None:
            for ent in list(pending):
                name, p, ts = ent
                rc = p.poll()
                if rc is None:
                    if time.time() - ts > timeout + 2:
                        p.kill()
                        p.wait()
                        pending.remove(ent)
                        log.append((name, "timeout", round(time.time() - ts, 3)))
                    continue
                out = p.stdout.read() or ""
                pending.remove(ent)
                firstline = out.strip().split("\n")[0].strip() if out.strip() else ""
                dt = round(time.time() - ts, 3)
                if firstline in ("sat", "unsat"):
                    log.append((name, firstline, dt))
                    answer = (name, firstline, out)
                    break
                if firstline == "unknown":
                    log.append((name, "unknown", dt))
                else:
                    log.append((name, "error", dt))
                    log.append((name, "stderr", out[:300]))
            if answer is None and pending:
                time.sleep(0.01)
        for name, p, ts in pending:
            try:
                p.kill()
                p.wait()
            except OSError:
                pass
        if answer is None and (order is None or "z3" in order):
            name, cmd = [s for s in SOLVERS if s[0] == "z3"][0]
            v, out, dt = run_one(cmd + ["-T:%d" % int(timeout)], path, timeout + 2)
            log.append((name, v, round(dt, 3)))
            if v in ("sat", "unsat"):
                answer = (name, v, out)
        res["seconds"] = time.time() - t0
        if answer is not None:
            res.update(verdict=answer[1], solver=answer[0], model=answer[2] if answer[1] == "sat" else None)
        return res
    finally:
        try:
            os.remove(path)
        except OSError:
            pass


_val_re = re.compile(r"\(\s*([A-Za-z_!.$0-9]+)\s+(.*)\)\s*$")


def parse_model(text):
    """very small parser for (get-value ...) output -> {name: python value or raw text}"""
    m = {}
    if not text:
        return m
    body = text.split("\n", 1)[1] if "\n" in text else ""
    toks = tokenize(body)
    try:
        tree = read(toks)
    except Exception:
        return m
    if isinstance(tree, list):
        for ent in tree:
            if isinstance(ent, list) and len(ent) == 2 and isinstance(ent[0], str):
                m[ent[0]] = to_py(ent[1])
    return m


def tokenize(s):
    toks = []
    i, n = 0, len(s)
    while i < n:
        c = s[i]
        if c.isspace():
            i += 1
        elif c in "()":
            toks.append(c)
            i += 1
        elif c == '"':
            j = i + 1
            buf = []
            while j < n:
                if s[j] == '"':
                    if j + 1 < n and s[j + 1] == '"':
                        buf.append('"')
                        j += 2
                        continue
                    break
                buf.append(s[j])
                j += 1
            toks.append(("str", "".join(buf)))
            i = j + 1
        else:
            j = i
            while j < n and not s[j].isspace() and s[j] not in "()":
                j += 1
            toks.append(s[i:j])
            i = j
    return toks


def read(toks):
    pos = [0]

    def rd():
        t = toks[pos[0]]
        pos[0] += 1
        if t == "(":
            lst = []
            while toks[pos[0]] != ")":
                lst.append(rd())
            pos[0] += 1
            return lst
        return t

    return rd()


def _unescape(s):
    def rep(mo):
        return chr(int(mo.group(1), 16))

    s = re.sub(r"\\u\{([0-9a-fA-F]+)\}", rep, s)
    s = re.sub(r"\\u([0-9a-fA-F]{4})", rep, s)
    s = re.sub(r"\\x([0-9a-fA-F]{2})", rep, s)
    return s


def to_py(v):
    if isinstance(v, tuple) and v[0] == "str":
        return _unescape(v[1])
    if isinstance(v, str):
        if v == "true":
            return True
        if v == "false":
            return False
        if re.fullmatch(r"-?\d+", v):
            return int(v)
        return ("sym", v)
    if isinstance(v, list):
        if len(v) == 2 and v[0] == "-":
            x = to_py(v[1])
            return -x if isinstance(x, int) else ("raw", v)
        if v and v[0] == "as" and len(v) == 3 and v[1] == "seq.empty":
            return []
        if v and v[0] == "seq.unit":
            return [to_py(v[1])]
        if v and v[0] in ("seq.++", "str.++"):
            parts = [to_py(x) for x in v[1:]]
            if all(isinstance(p, list) for p in parts):
                return [y for p in parts for y in p]
            if all(isinstance(p, str) for p in parts):
                return "".join(parts)
        return ("raw", v)
    return ("raw", v)
