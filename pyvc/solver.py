# -*- coding: utf-8 -*-
"""Solver portfolio: SMT-LIB text -> cvc5 / z3-new / z3 CLIs.

verdicts: 'unsat' (discharged), 'sat' (refuted, model text kept), 'unknown'.
An obligation is discharged when ANY solver says unsat (assumption A6).
"""
import os
import re
import subprocess
import tempfile
import time

from .terms import consts_of, sort_str

SOLVERS = [
    ("cvc5", ["/usr/bin/cvc5", "--lang", "smt2", "--strings-exp", "--produce-models"]),
    ("z3-new", ["z3-new", "-smt2"]),
    ("z3", ["/usr/bin/z3", "-smt2"]),
]

PRELUDE = """(set-logic ALL)
(set-option :produce-models true)
"""


def build_query(decls_extra, assumptions, goal, ufs):
    """assumptions: list of T; goal: T (we assert its negation). ufs: dict name->(argsorts, ressort)"""
    from .terms import Not

    terms = list(assumptions) + [goal]
    consts = consts_of(terms)
    text = "".join(str(t) for t in terms) + " ".join(sort_str(x) for x in consts.values())
    out = [PRELUDE]
    for d in decls_extra:
        if "declare-datatypes ((Val" in d and not ("VInt" in text or "VStr" in text or "VNone" in text or " Val" in text):
            continue
        out.append(d)
    for name, (args, res) in sorted(ufs.items()):
        if re.search(r"\(%s[ )]" % re.escape(name), text):
            out.append("(declare-fun %s (%s) %s)" % (name, " ".join(sort_str(a) for a in args), sort_str(res)))
    for name, srt in sorted(consts.items()):
        out.append("(declare-const %s %s)" % (name, sort_str(srt)))
    for a in assumptions:
        out.append("(assert %s)" % a)
    out.append("(assert %s)" % Not(goal))
    out.append("(check-sat)")
    return "\n".join(out) + "\n", consts


def run_one(cmd, path, timeout):
    t0 = time.time()
    try:
        p = subprocess.run(cmd + [path], capture_output=True, text=True, timeout=timeout)
        out = (p.stdout or "") + (p.stderr or "")
    except subprocess.TimeoutExpired:
        return "timeout", "", time.time() - t0
    first = out.strip().split("\n")[0].strip() if out.strip() else ""
    if first in ("sat", "unsat", "unknown"):
        return first, out, time.time() - t0
    return "error", out, time.time() - t0


def solve(query, consts, timeout=10, want_model=True, order=None):
    """returns dict(verdict, solver, seconds, model, log)"""
    fd, path = tempfile.mkstemp(suffix=".smt2", prefix="pyvc_")
    os.close(fd)
    log = []
    res = {"verdict": "unknown", "solver": None, "seconds": 0.0, "model": None, "log": log}
    try:
        q = query
        if want_model:
            names = " ".join(sorted(consts))
            if names:
                q = query + "(get-value (%s))\n" % names
        with open(path, "w") as f:
            f.write(q)
        total = 0.0
        for name, cmd in SOLVERS if order is None else [s for s in SOLVERS if s[0] in order]:
            extra = []
            if name == "cvc5":
                extra = ["--tlimit=%d" % int(timeout * 1000)]
            else:
                extra = ["-T:%d" % int(timeout)]
            v, out, dt = run_one(cmd + extra, path, timeout + 2)
            total += dt
            log.append((name, v, round(dt, 3)))
            if v == "unsat":
                res.update(verdict="unsat", solver=name, seconds=total)
                return res
            if v == "sat":
                res.update(verdict="sat", solver=name, seconds=total, model=out)
                return res
            if v == "error":
                log.append((name, "stderr", out[:400]))
        res["seconds"] = total
        return res
    finally:
        try:
            os.remove(path)
        except OSError:
            pass


_val_re = re.compile(r"\(\s*([A-Za-z_!.$0-9]+)\s+(.*)\)\s*$")


def parse_model(text):
    """very small parser for (get-value ...) output -> {name: python value or raw text}"""
    m = {}
    if not text:
        return m
    body = text.split("\n", 1)[1] if "\n" in text else ""
    toks = tokenize(body)
    try:
        tree = read(toks)
    except Exception:
        return m
    if isinstance(tree, list):
        for ent in tree:
            if isinstance(ent, list) and len(ent) == 2 and isinstance(ent[0], str):
                m[ent[0]] = to_py(ent[1])
    return m


def tokenize(s):
    toks = []
    i, n = 0, len(s)
    while i < n:
        c = s[i]
        if c.isspace():
            i += 1
        elif c in "()":
            toks.append(c)
            i += 1
        elif c == '"':
            j = i + 1
            buf = []
            while j < n:
                if s[j] == '"':
                    if j + 1 < n and s[j + 1] == '"':
                        buf.append('"')
                        j += 2
                        continue
                    break
                buf.append(s[j])
                j += 1
            toks.append(("str", "".join(buf)))
            i = j + 1
        else:
            j = i
            while j < n and not s[j].isspace() and s[j] not in "()":
                j += 1
            toks.append(s[i:j])
            i = j
    return toks


def read(toks):
    pos = [0]

    def rd():
        t = toks[pos[0]]
        pos[0] += 1
        if t == "(":
            lst = []
            while toks[pos[0]] != ")":
                lst.append(rd())
            pos[0] += 1
            return lst
        return t

    return rd()


def _unescape(s):
    def rep(mo):
        return chr(int(mo.group(1), 16))

    s = re.sub(r"\\u\{([0-9a-fA-F]+)\}", rep, s)
    s = re.sub(r"\\u([0-9a-fA-F]{4})", rep, s)
    s = re.sub(r"\\x([0-9a-fA-F]{2})", rep, s)
    return s


def to_py(v):
    if isinstance(v, tuple) and v[0] == "str":
        return _unescape(v[1])
    if isinstance(v, str):
        if v == "true":
            return True
        if v == "false":
            return False
        if re.fullmatch(r"-?\d+", v):
            return int(v)
        return ("sym", v)
    if isinstance(v, list):
        if len(v) == 2 and v[0] == "-":
            x = to_py(v[1])
            return -x if isinstance(x, int) else ("raw", v)
        if v and v[0] == "as" and len(v) == 3 and v[1] == "seq.empty":
            return []
        if v and v[0] == "seq.unit":
            return [to_py(v[1])]
        if v and v[0] in ("seq.++", "str.++"):
            parts = [to_py(x) for x in v[1:]]
            if all(isinstance(p, list) for p in parts):
                return [y for p in parts for y in p]
            if all(isinstance(p, str) for p in parts):
                return "".join(parts)
        return ("raw", v)
    return ("raw", v)
