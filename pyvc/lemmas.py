# -*- coding: utf-8 -*-
"""Ground instantiation of lemma schemas on the terms of one verification condition.

Solvers go `unknown` on quantified axioms over sequences (measured, DESIGN 1.1); so the
generator instantiates each schema on the ground terms of the VC itself.  Every schema
is a theorem of the spec function's definition (J = concatenation of a list of strings,
isspace/isdigit = non-empty and every character in the class, ...); each schema is
validated against CPython by `pyvc.axioms.validate()` on every run.
"""
import hashlib

from .terms import (
    BOOL,
    Const,
    INT,
    STR,
    Add,
    And,
    App,
    Concat,
    Contains,
    Unit,
    Eq,
    Extract,
    Ge,
    I,
    Implies,
    Ite,
    Le,
    Len,
    Lt,
    Ne,
    Not,
    Nth,
    Or,
    S,
    Seq,
    Sub,
    T,
    subterms,
    subst,
    subst_term,
    consts_of,
)

MAX_INST = 700
NESTED_CAP = 8


def J(t):
    return App("J", (t,), STR)


class Hom(object):
    """view of a homomorphic spec-function application F(seq, ctx..., heap...)"""

    def __init__(self, t, templates):
        self.t = t
        self.rest = t.args[1:]
        if t.op == "J":
            self.kind = "str"
            self.tpl = None
        else:
            self.tpl = templates[t.op[4:]]
            self.kind = self.tpl["kind"]

    def of(self, y):
        return App(self.t.op, (y,) + tuple(self.rest), self.t.sort)

    def unit(self, x):
        if self.tpl is None:
            return x
        m = {self.tpl["x"]: x}
        names = self.tpl["ctx"] + [h for k, h in self.tpl["heap"]]
        for n, a in zip(names, self.rest):
            m[n] = a
        return subst(self.tpl["template"], m)

    def plus(self, *xs):
        if self.kind == "int":
            r = xs[0]
            for x in xs[1:]:
                r = Add(r, x)
            return r
        return Concat(*xs)

    def zero(self):
        if self.kind == "int":
            return I(0)
        if self.kind == "str":
            return S("")
        return T("#empty", (), self.t.sort)


def filter_shape(h):
    """'pos' for unit = ite(P(x), [x], []), 'neg' for ite(P(x), [], [x]), None otherwise"""
    if h.tpl is None:
        return None
    tp = h.tpl["template"]
    if tp.op != "ite":
        return None
    a, b = tp.args[1], tp.args[2]
    if a.op == "seq.unit" and str(a.args[0]) == h.tpl["x"] and b.op == "#empty":
        return "pos"
    if b.op == "seq.unit" and str(b.args[0]) == h.tpl["x"] and a.op == "#empty":
        return "neg"
    return None


def is_hom(t):
    return t.op == "J" or t.op.startswith("hom_")


_names_cache = {}


def _names(t):
    k = str(t)
    r = _names_cache.get(k)
    if r is None:
        r = set()
        if t.op == "#const":
            r.add(t.args[0])
        for a in t.args:
            if isinstance(a, T):
                r |= _names(a)
        _names_cache[k] = r
    return r


def positive_in(q, terms):
    """instantiating `q => inst` is always sound, so polarity does not matter for soundness"""
    return True


def instantiate(terms, rounds=5, templates=None):
    templates = templates or {}
    """terms: list of T (assumptions + goal). returns list of lemma instances (T Bool)."""
    out = []
    seen_inst = set()
    done_J = set()
    done_other = set()

    def add(t):
        k = str(t)
        if k not in seen_inst and len(out) < MAX_INST:
            seen_inst.add(k)
            out.append(t)
            return True
        return False

    work = list(terms)
    terms_pos = terms
    persist = {}
    top_level = set()
    for t in terms[:-1]:
        if t.op == "#forall":
            top_level.add(str(t))
        elif t.op == "and":
            top_level.update(str(a) for a in t.args if a.op == "#forall")
    seq_defs = {}
    for t in terms[:-1]:
        for e in t.args if t.op == "and" else [t]:
            if e.op == "=" and len(e.args) == 2:
                for c, d in ((e.args[0], e.args[1]), (e.args[1], e.args[0])):
                    if c.op == "#const" and isinstance(c.sort, tuple) and c.sort[0] == "Seq" and (d.op in ("seq.++", "sorted_int") or d.op.startswith("hom_")):
                        seq_defs.setdefault(str(c), []).append(d)
    for rnd in range(rounds):
        allsub = {}
        for t in work:
            subterms(t, allsub)
        # names bound anywhere in the VC, accumulated over the rounds (later rounds look at the new lemmas only)
        bound_all = persist.setdefault("bound", set())
        bound_all.update(t.args[0].args[0] for t in allsub.values() if t.op in ("#forall", "#exists"))
        bound = set(bound_all)
        if bound:
            # never instantiate on terms that mention a bound variable
            allsub = {k: t for k, t in allsub.items() if t.op in ("#forall", "#exists") or not (bound & set(_names(t)))}
        new = []
        jterms = [t for t in allsub.values() if is_hom(t)]
        # structural rules for homomorphic spec functions, recursively
        stack = [(Hom(t, templates), t.args[0]) for t in jterms]
        by_base = {}
        by_range = {}
        while stack:
            h, x = stack.pop()
            kx = str(h.of(x))
            fx = h.of(x)
            if kx in done_J:
                if x.op in ("seq.extract",):
                    by_base.setdefault((str(x.args[0]), str(h.of(x.args[0]))), (x.args[0], h, {}))[2][kx] = x
                if x.op == "irange":
                    by_range.setdefault(str(h.of(x.args[0])) + "|" + str(x.args[0]), (h, {}))[1][kx] = x
                continue
            done_J.add(kx)
            if h.tpl is not None and h.kind == "int":
                # a counting spec function (every unit is a non-negative constant, possibly chosen by a condition) is non-negative
                def _nonneg_unit(u):
                    if u.op == "#int":
                        return u.val >= 0
                    if u.op == "ite":
                        return _nonneg_unit(u.args[1]) and _nonneg_unit(u.args[2])
                    return False

                if _nonneg_unit(h.tpl["template"]):
                    new.append(Ge(fx, I(0)))
            if h.tpl is not None and h.tpl["template"].op == "seq.unit":
                # map-shaped spec function: one output element per input element
                new.append(Eq(Len(fx), Len(x)))
            if x.op == "#const" and str(x) in seq_defs and str(x).startswith("lst!"):
                # a named intermediate list value: the spec function of the name is the spec function of its definition
                for d in seq_defs[str(x)][:1]:
                    new.append(Eq(fx, h.of(d)))
                    stack.append((h, d))
            if x.op == "#empty":
                new.append(Eq(fx, h.zero()))
            elif x.op == "seq.unit":
                new.append(Eq(fx, h.unit(x.args[0])))
            elif x.op == "seq.++":
                new.append(Eq(fx, h.plus(*[h.of(a) for a in x.args])))
                stack.extend((h, a) for a in x.args)
                # element replacement  s[:a] ++ [y] ++ s[a+1:] : split F(s) at the same index (under every heap variant
                # of this application that the freshness rule can produce)
                if len(x.args) == 3 and x.args[0].op == "seq.extract" and x.args[2].op == "seq.extract" and x.args[1].op == "seq.unit":
                    e0, e2 = x.args[0], x.args[2]
                    if str(e0.args[0]) == str(e2.args[0]) and e0.args[1].op == "#int" and e0.args[1].val == 0:
                        s0, a = e0.args[0], e0.args[2]
                        variants = [h]
                        stripped = []
                        ch = False
                        for arg in h.rest:
                            b0 = arg
                            while b0.op == "store" and b0.args[1].op == "#const" and b0.args[1].args[0].startswith("new_"):
                                b0 = b0.args[0]
                                ch = True
                            stripped.append(b0)
                        if ch:
                            variants.append(Hom(App(h.t.op, (x,) + tuple(stripped), h.t.sort), templates))
                        for hv in variants:
                            new.append(
                                Implies(
                                    And(Le(I(0), a), Lt(a, Len(s0)), Eq(e2.args[1], Add(a, I(1))), Ge(e2.args[2], Sub(Len(s0), Add(a, I(1))))),
                                    Eq(hv.of(s0), hv.plus(hv.of(e0), hv.unit(Nth(s0, a)), hv.of(e2))),
                                )
                            )
            elif x.op == "ite":
                new.append(Eq(fx, Ite(x.args[0], h.of(x.args[1]), h.of(x.args[2]))))
                stack.extend((h, a) for a in x.args[1:])
            elif x.op == "seq.extract":
                by_base.setdefault((str(x.args[0]), str(h.of(x.args[0]))), (x.args[0], h, {}))[2][kx] = x
                s, a, n = x.args
                new.append(Implies(Or(Le(n, I(0)), Lt(a, I(0)), Ge(a, Len(s))), Eq(fx, h.zero())))
                new.append(Implies(And(Le(I(0), a), Lt(a, Len(s)), Eq(n, I(1))), Eq(fx, h.unit(Nth(s, a)))))
                new.append(Implies(And(Le(I(0), a), Lt(Add(a, I(1)), Len(s)), Eq(n, I(2))), Eq(fx, h.plus(h.unit(Nth(s, a)), h.unit(Nth(s, Add(a, I(1))))))))
                if s.op == "seq.extract":
                    # a slice of a slice is a slice of the base:  s0[a0:a0+n0][a:a+n] == s0[a0+a:a0+a+n]  when it fits
                    s0, a0, n0 = s.args
                    inner = Extract(s0, Add(a0, a), n)
                    new.append(Implies(And(Le(I(0), a0), Le(I(0), a), Le(I(0), n), Le(Add(a, n), n0)), Eq(fx, h.of(inner))))
                    stack.append((h, inner))
                new.append(Implies(And(Eq(a, I(0)), Ge(n, Len(s))), Eq(fx, h.of(s))))
            elif x.op == "irange":
                by_range.setdefault(str(h.of(x.args[0])) + "|" + str(x.args[0]), (h, {}))[1][kx] = x
                a, b2 = x.args
                new.append(Implies(Le(b2, a), Eq(fx, h.zero())))
                new.append(Implies(Eq(b2, Add(a, I(1))), Eq(fx, h.unit(a))))
            elif (x.op in ("#const", "select", "seq.nth") or x.op.startswith("hom_")) and rnd == 0:
                # opaque sequence: expand when its length is a small constant (regions of 1-4 tokens)
                for n in range(0, 5):
                    new.append(Implies(Eq(Len(x), I(n)), Eq(fx, h.plus(*[h.unit(Nth(x, I(i))) for i in range(n)]) if n else h.zero())))
        # rules on extracts of the same base
        for bs, (s, h, exts) in by_base.items():
            es = list(exts.values())[:12]
            for e1 in es:
                a1, n1 = e1.args[1], e1.args[2]
                k0 = ("split0", str(h.of(e1)))
                if k0 not in done_other and a1.op == "#int" and a1.val == 0 and rnd <= 1:
                    done_other.add(k0)
                    # prefix split of the base: s = s[:n] ++ s[n:]
                    new.append(Implies(And(Le(I(0), n1), Le(n1, Len(s))), Eq(h.of(s), h.plus(h.of(e1), h.of(Extract(s, n1, Sub(Len(s), n1)))))))
                k = ("part", str(h.of(e1)))
                if k not in done_other and not (a1.op == "#int" and a1.val == 0):
                    done_other.add(k)
                    # partition: s = s[:a] ++ s[a:a+n] ++ s[a+n:]
                    end = Add(a1, n1)
                    new.append(
                        Implies(
                            And(Le(I(0), a1), Le(I(0), n1)),
                            Eq(h.of(s), h.plus(h.of(Extract(s, I(0), a1)), h.of(e1), h.of(Extract(s, end, Sub(Len(s), end))))),
                        )
                    )
                for e2 in es:
                    if e1 is e2:
                        continue
                    a2, n2 = e2.args[1], e2.args[2]
                    same = str(a1) == str(a2)
                    if not same and not (len(str(a1)) < 40 and len(str(a2)) < 40 and len(es) <= 6 and rnd <= 1):
                        continue
                    k = ("pre", str(h.of(e1)), str(h.of(e2)))
                    if k in done_other:
                        continue
                    done_other.add(k)
                    # common start: prefix relation (starts equal syntactically, or semantically as a guard)
                    mid = Extract(s, Add(a1, n1), Sub(n2, n1))
                    new.append(
                        Implies(
                            And(Le(I(0), a1), Le(I(0), n1), Le(n1, n2), *([] if same else [Eq(a1, a2)])),
                            Eq(h.of(e2), h.plus(h.of(e1), h.of(mid))),
                        )
                    )
        # integer ranges with a common start
        for key, (h, rs) in by_range.items():
            es = list(rs.values())[:10]
            for r1 in es:
                for r2 in es:
                    if r1 is r2:
                        continue
                    k = ("rng", str(h.of(r1)), str(h.of(r2)))
                    if k in done_other:
                        continue
                    done_other.add(k)
                    a, b1 = r1.args
                    b2 = r2.args[1]
                    mid = App("irange", (b1, b2), r1.sort)
                    new.append(Implies(And(Le(a, b1), Le(b1, b2)), Eq(h.of(r2), h.plus(h.of(r1), h.of(mid)))))
        for t in allsub.values():
            if t.op == "irange":
                k = ("irange", str(t))
                if k in done_other:
                    continue
                done_other.add(k)
                a, b2 = t.args
                new.append(Eq(Len(t), Ite(Ge(b2, a), Sub(b2, a), I(0))))
        # string class predicates
        for t in allsub.values():
            if t.op in ("isspace", "isdigit"):
                k = str(t)
                if k in done_other:
                    continue
                done_other.add(k)
                x = t.args[0]
                if x.op == "#str":
                    v = x.val.isspace() if t.op == "isspace" else x.val.isdigit()
                    new.append(Eq(t, T("#bool", (v,), BOOL)))
                elif x.op == "str.++":
                    parts = x.args
                    new.append(
                        Eq(
                            t,
                            And(Ne(x, S("")), *[Or(Eq(p, S("")), App(t.op, (p,), BOOL)) for p in parts]),
                        )
                    )
                else:
                    new.append(Implies(t, Ne(x, S(""))))
            if t.op == "str_repeat":
                k = str(t)
                if k not in done_other:
                    done_other.add(k)
                    sx, n = t.args
                    new.append(Eq(Len(t), Ite(Ge(n, I(0)), T("*", (Len(sx), n), INT) if sx.op != "#str" else T("*", (I(len(sx.val)), n), INT), I(0))))
                    if sx.op == "#str" and sx.val != "" and sx.val.isspace():
                        new.append(Eq(App("isspace", (t,), BOOL), Ge(n, I(1))))
                    if sx.op == "#str" and len(sx.val) == 1:
                        new.append(Implies(Le(n, I(0)), Eq(t, S(""))))
                        new.append(Eq(App("str_repeat", (sx, I(1)), STR), sx))
            if t.op in ("split", "wsplit"):
                k = str(t)
                if k in done_other:
                    continue
                done_other.add(k)
                if t.op == "split":
                    new.append(Ge(Len(t), I(1)))
                else:
                    new.append(Ge(Len(t), I(0)))
            if t.op in ("lower", "upper"):
                k = str(t)
                if k in done_other:
                    continue
                done_other.add(k)
                x = t.args[0]
                if x.op == "#str":
                    new.append(Eq(t, S(x.val.lower() if t.op == "lower" else x.val.upper())))
                # CPython-validated character axiom (axioms.py: lower_digit_axiom):
                #   last char of lower(s) in "boxd" => s non-empty and its last char is not a digit
                if t.op == "lower":
                    suf = Or(*[App("str.suffixof", (S(c), t), BOOL) for c in "boxd"])
                    lastc = App("str.at", (x, Sub(Len(x), I(1))), STR)
                    new.append(Implies(suf, And(Ge(Len(x), I(1)), Not(App("isdigit", (lastc,), BOOL)))))
        # class hierarchy: relations between the isa_* predicates applied to one object, and exact class of allocated objects
        ci = templates.get("#classes")
        if ci:
            per_obj = persist.setdefault("per_obj", {})
            clst = persist.setdefault("clst", {})
            for t in allsub.values():
                if t.op.startswith("isa_"):
                    per_obj.setdefault(str(t.args[0]), (t.args[0], {}))[1][t.op[4:].replace("__", ".")] = t
                elif t.op == "cls":
                    clst[str(t.args[0])] = t
            for ko, (obj, preds) in per_obj.items():
                qs = sorted(preds)
                for i, a in enumerate(qs):
                    for b in qs[i + 1 :]:
                        r = ci["rel"].get((a, b))
                        kk = ("cls-rel", ko, a, b)
                        if r is None or kk in done_other:
                            continue
                        done_other.add(kk)
                        if r == "subset":
                            new.append(Implies(preds[a], preds[b]))
                        elif r == "superset":
                            new.append(Implies(preds[b], preds[a]))
                        elif r == "disjoint":
                            new.append(Not(And(preds[a], preds[b])))
                if ko in clst:
                    for q in qs:
                        kk = ("cls-id", ko, q)
                        if kk in done_other or q not in ci["ids"]:
                            continue
                        done_other.add(kk)
                        new.append(Eq(preds[q], Or(*[Eq(clst[ko], I(i)) for i in ci["ids"][q]])))
            # an object whose exact class is known (cls(o) is constrained: it was allocated here) answers EVERY class test that
            # occurs in the VC, also those that are applied to it only through an alias term (an element of a list, a field)
            allq = persist.setdefault("allq", set())
            for ko, (obj, preds) in per_obj.items():
                allq.update(preds)
            for ko, ct in clst.items():
                if not (ct.args[0].op == "#const" and ct.args[0].args[0].startswith("new_")):
                    continue
                for q in sorted(allq):
                    kk = ("cls-id", ko, q)
                    if kk in done_other or q not in ci["ids"]:
                        continue
                    done_other.add(kk)
                    pq = App("isa_" + q.replace(".", "__"), (ct.args[0],), BOOL)
                    new.append(Eq(pq, Or(*[Eq(ct, I(i)) for i in ci["ids"][q]])))
        # freshness: a constant new_*!N was allocated after every constant with a smaller number was created, so no
        # older term denotes it or contains it; spec functions over older sequences do not see writes to its fields
        fresh = [t for t in allsub.values() if t.op == "#const" and t.args[0].startswith("new_") and t.sort == "Ref"]
        if fresh:
            _stamp_cache = {}

            def stamp(t):
                """newest container/object constant in t (integer, boolean and string constants cannot hold an object)"""
                k = str(t)
                if k in _stamp_cache:
                    return _stamp_cache[k]
                m = -1
                if t.op == "#const":
                    n = t.args[0]
                    if t.sort not in (INT, BOOL, STR) and "!" in n and n.rsplit("!", 1)[1].isdigit():
                        m = int(n.rsplit("!", 1)[1])
                else:
                    for a in t.args:
                        if isinstance(a, T):
                            m = max(m, stamp(a))
                _stamp_cache[k] = m
                return m

            for r in fresh:
                nr = int(r.args[0].rsplit("!", 1)[1])
                for t in list(allsub.values()):
                    if t is r or t.op in ("#forall", "#exists"):
                        continue
                    kk = ("fresh", str(r), str(t))
                    if kk in done_other:
                        continue
                    if t.sort == "Ref" and t.op != "#const" and stamp(t) < nr and len(str(t)) < 300:
                        done_other.add(kk)
                        new.append(Ne(r, t))
                    elif t.sort == "Ref" and t.op == "#const" and not t.args[0].startswith("$") and stamp(t) < nr:
                        done_other.add(kk)
                        new.append(Ne(r, t))
                    elif t.op.startswith("hom_") or t.op == "J":
                        # F(xs, ..., store(H, r, v), ...) == F(xs, ..., H, ...) when xs is older than r
                        xs = t.args[0]
                        if stamp(xs) >= nr:
                            continue
                        changed = False
                        na = []
                        for a in t.args[1:]:
                            b = a
                            while b.op == "store" and str(b.args[1]) == str(r):
                                b = b.args[0]
                                changed = True
                            na.append(b)
                        if changed:
                            done_other.add(kk)
                            new.append(Eq(t, App(t.op, (xs,) + tuple(na), t.sort)))
        # membership in sequences (x in L, x in L[:n]): both solvers are slow on seq.contains over strings, the three facts that
        # loops over the keys of a dictionary need are instantiated on the ground terms: an element at a valid index is contained;
        # a prefix that contains x extends to the whole; the prefix one longer contains x iff the shorter does or the new element is x
        cont = [t for t in allsub.values() if t.op == "seq.contains" and t.args[1].op == "seq.unit"]

        def quantified_seqs():
            """sequences some quantified formula of the VC reads element by element (seq.nth X k with k bound): only for those is
            "a member sits at some index" of any use, and instantiating it for every membership test floods the solver"""
            qs = persist.get("qseqs")
            if qs is None or persist.get("qseqs_round") != rnd:
                qs = persist.setdefault("qseqs", set())
                persist["qseqs_round"] = rnd
                for t in allsub.values():
                    if t.op in ("#forall", "#exists"):
                        bv = str(t.args[0])
                        sub = {}
                        subterms(t.args[2], sub)
                        for u in sub.values():
                            if u.op == "seq.nth" and str(u.args[1]) == bv:
                                qs.add(str(u.args[0]))
            return qs

        if cont:
            nths = {}
            for t in allsub.values():
                if t.op == "seq.nth":
                    nths.setdefault(str(t.args[0]), {})[str(t.args[1])] = t
            pref = {}
            for c in cont[:40]:
                X, x = c.args[0], c.args[1].args[0]
                base = X
                if X.op == "seq.extract" and X.args[1].op == "#int" and X.args[1].val == 0:
                    base, n = X.args[0], X.args[2]
                    pref.setdefault((str(base), str(x)), (base, x, {}))[2][str(n)] = (n, c)
                    kk = ("cont-pre", str(c))
                    if kk not in done_other:
                        done_other.add(kk)
                        new.append(Implies(c, Contains(base, Unit(x))))
                        new.append(Implies(Le(n, I(0)), Not(c)))
                        new.append(Implies(Ge(n, Len(base)), Eq(c, Contains(base, Unit(x)))))
                        # one more element
                        c1 = Contains(Extract(base, I(0), Add(n, I(1))), Unit(x))
                        new.append(Implies(And(Le(I(0), n), Lt(n, Len(base))), Eq(c1, Or(c, Eq(Nth(base, n), x)))))
                kk = ("cont-sk", str(c))
                if kk not in done_other and str(X) in quantified_seqs():
                    done_other.add(kk)
                    # a member sits at some position (skolem constant named after the term, so that it is the same in every round)
                    sk = Const("member_at!%s" % hashlib.sha1(str(c).encode()).hexdigest()[:10], INT)
                    new.append(Implies(c, And(Le(I(0), sk), Lt(sk, Len(X)), Eq(Nth(X, sk), x))))
                for ki, nt in list(nths.get(str(base), {}).items())[:8]:
                    kk = ("cont-nth", str(base), ki)
                    if kk in done_other:
                        continue
                    done_other.add(kk)
                    i = nt.args[1]
                    new.append(Implies(And(Le(I(0), i), Lt(i, Len(base))), Contains(base, Unit(nt))))
        # an element of a sorted list is an element of the list that was sorted (at a position named after the term)
        for t in list(allsub.values()):
            if t.op == "seq.nth" and t.args[0].op == "sorted_int":
                kk = ("sorted-perm", str(t))
                if kk in done_other:
                    continue
                done_other.add(kk)
                x = t.args[0].args[0]
                pk = Const("sorted_from!%s" % hashlib.sha1(str(t).encode()).hexdigest()[:10], INT)
                new.append(Implies(And(Le(I(0), t.args[1]), Lt(t.args[1], Len(t.args[0]))), And(Le(I(0), pk), Lt(pk, Len(x)), Eq(t, Nth(x, pk)))))
        # a sorted list is ascending: for every two positions at which the same sorted list is read
        sorted_reads = {}
        for t in list(allsub.values()):
            if t.op == "seq.nth" and t.args[0].op == "sorted_int":
                sorted_reads.setdefault(str(t.args[0]), {})[str(t.args[1])] = t
        for ss, reads in sorted_reads.items():
            rl = sorted(reads.items())
            if len(rl) > 12:
                rl = rl[:12]
            for ia, ta in rl:
                for ib, tb in rl:
                    if ia == ib:
                        continue
                    kk = ("sorted-asc", ss, ia, ib)
                    if kk in done_other:
                        continue
                    done_other.add(kk)
                    new.append(Implies(And(Le(I(0), ta.args[1]), Le(ta.args[1], tb.args[1]), Lt(tb.args[1], Len(ta.args[0]))), Le(ta, tb)))
        def nth_rules(nth_terms):
            new = []
            # a sequence constant defined by a top-level equation (c == concatenation / spec function): its elements are the
            # elements of the defining term (congruence made explicit, so that the element rules below see them)
            for t in list(nth_terms):
                if t.op == "seq.nth" and t.args[0].op == "#const" and str(t.args[0]) in seq_defs:
                    for d in seq_defs[str(t.args[0])]:
                        kk = ("def-elem", str(t), str(d))
                        if kk in done_other:
                            continue
                        done_other.add(kk)
                        nt = Nth(d, t.args[1])
                        new.append(Eq(t, nt))
                        allsub.setdefault(str(nt), nt)
            # element of a concatenation / of a unit / of an extract: case split made explicit
            for t in list(nth_terms):
                if t.op == "seq.nth":
                    x, k = t.args
                    kk = ("nth", str(t))
                    if kk in done_other:
                        continue
                    done_other.add(kk)
                    if x.op == "seq.++":
                        off = I(0)
                        for part in x.args:
                            if part.op == "seq.unit":
                                new.append(Implies(Eq(k, off), Eq(t, part.args[0])))
                            else:
                                new.append(Implies(And(Le(off, k), Lt(k, Add(off, Len(part)))), Eq(t, Nth(part, Sub(k, off)))))
                            off = Add(off, Len(part))
                    elif x.op == "seq.extract":
                        s0, a, n = x.args
                        new.append(Implies(And(Le(I(0), a), Le(I(0), k), Lt(k, n), Lt(Add(a, k), Len(s0))), Eq(t, Nth(s0, Add(a, k)))))
                    elif x.op == "ite":
                        new.append(Eq(t, Ite(x.args[0], Nth(x.args[1], k), Nth(x.args[2], k))))
                    elif x.op == "irange":
                        new.append(Implies(And(Le(I(0), k), Lt(k, Sub(x.args[1], x.args[0]))), Eq(t, Add(x.args[0], k))))
            # element of a map-shaped spec function
            for t in list(nth_terms):
                if t.op == "seq.nth" and t.args[0].op.startswith("hom_"):
                    h = Hom(t.args[0], templates)
                    if h.tpl["template"].op == "seq.unit":
                        kk = ("map-elem", str(t))
                        if kk in done_other:
                            continue
                        done_other.add(kk)
                        xs, k = t.args[0].args[0], t.args[1]
                        u = h.unit(Nth(xs, k))
                        new.append(Implies(And(Le(I(0), k), Lt(k, Len(xs))), Eq(t, u.args[0])))
            # elements of a filter satisfy the filter's predicate (filter-shaped homs: unit = ite(P(x), [x], []))
            for t in list(nth_terms):
                if t.op == "seq.nth" and t.args[0].op.startswith("hom_"):
                    kk = ("filt-elem", str(t))
                    if kk in done_other:
                        continue
                    done_other.add(kk)
                    h = Hom(t.args[0], templates)
                    shape = filter_shape(h)
                    if shape:
                        u = h.unit(t)  # ite(P(t), [t], []) or ite(P(t), [], [t])
                        if u.op == "ite":
                            new.append(Implies(And(Le(I(0), t.args[1]), Lt(t.args[1], Len(t.args[0]))), u.args[0] if shape == "pos" else Not(u.args[0])))
            return new

        # element rules run to a (bounded) fixpoint inside the round: an element of a constant defined as a concatenation of
        # filters of filters is traced back to the sequence it came from without spending one round per step
        pending = [t for t in allsub.values() if t.op == "seq.nth"]
        for _ in range(6):
            lem = nth_rules(pending)
            new.extend(lem)
            sub2 = {}
            for l in lem:
                subterms(l, sub2)
            pending = [t for k, t in sub2.items() if t.op == "seq.nth" and k not in allsub and not (bound & set(_names(t)))]
            for t in pending:
                allsub[str(t)] = t
            if not pending or len(out) + len(new) > MAX_INST:
                break
        # reverse (uninterpreted rev_*): length and element facts at the index terms of the VC
        idx_terms = {}
        bound_all.update(t.args[0].args[0] for t in allsub.values() if t.op in ("#forall", "#exists"))
        bound = set(bound_all)
        for t in allsub.values():
            if t.op in ("seq.nth", "str.at") and len(str(t.args[1])) < 200 and not (bound & set(consts_of([t.args[1]]))):
                idx_terms.setdefault(str(t.args[0]), {})[str(t.args[1])] = t.args[1]
        for t in allsub.values():
            if t.op.startswith("rev_"):
                x = t.args[0]
                k = str(t)
                if k not in done_other:
                    done_other.add(k)
                    new.append(Eq(Len(t), Len(x)))
                    if x.op == "seq.extract" and x.args[0].op == t.op:
                        # reversing a slice of a reversed list gives a slice of the list:  rev(rev(y)[a:a+m]) == y[len-a-m : len-a]
                        y = x.args[0].args[0]
                        a, m = x.args[1], x.args[2]
                        new.append(Implies(And(Le(I(0), a), Le(I(0), m), Le(Add(a, m), Len(y))), Eq(t, Extract(y, Sub(Sub(Len(y), a), m), m))))
                for ks, it in list(idx_terms.get(k, {}).items())[:8]:
                    kk = ("rev", k, ks)
                    if kk in done_other:
                        continue
                    done_other.add(kk)
                    new.append(Implies(And(Le(I(0), it), Lt(it, Len(x))), Eq(Nth(t, it), Nth(x, Sub(Sub(Len(x), I(1)), it)))))
        # universally quantified assumptions: instantiate at index terms of the VC
        all_idx = {}
        for d in idx_terms.values():
            all_idx.update(d)
        cands = list(all_idx.values())[:14]
        key_cands = {}
        for t in allsub.values():
            if t.op == "select" and t.args[1].sort != INT and len(str(t.args[1])) < 200:
                key_cands.setdefault(str(t.args[1].sort), {})[str(t.args[1])] = t.args[1]
            if t.op == "store" and t.args[1].sort != INT and len(str(t.args[1])) < 200:
                key_cands.setdefault(str(t.args[1].sort), {})[str(t.args[1])] = t.args[1]
        # quantified formulas stay candidates in every later round (new index terms keep appearing)
        fa_all = persist.setdefault("foralls", {})
        for t in allsub.values():
            if t.op == "#forall":
                fa_all.setdefault(str(t), t)
        for t in list(fa_all.values()):
            if t.op == "#forall":
                kv, rng, body = t.args
                if not positive_in(t, terms_pos):
                    continue
                if (bound - {kv.args[0]}) & set(_names(t)):
                    continue  # nested quantifier that mentions an outer bound variable
                mycands = cands if kv.sort == INT else list(key_cands.get(str(kv.sort), {}).values())[:10]
                if kv.sort == INT:
                    # trigger matching first: the body reads seq[k], so the index terms at which that very sequence is read
                    # elsewhere in the VC are the relevant instances
                    trig = {}
                    bsub = {}
                    subterms(body, bsub)
                    for bt in bsub.values():
                        if bt.op == "seq.nth" and str(bt.args[1]) == str(kv):
                            for ks, it in idx_terms.get(str(bt.args[0]), {}).items():
                                trig.setdefault(ks, it)
                    if trig:
                        pri = sorted(trig.items(), key=lambda kv2: (not kv2[0].startswith("orig_"), len(kv2[0])))
                        # a quantified formula that is not itself an assumption (it sits under a disjunction or implication) gets
                        # guarded instances `t => body[c]`: fewer of them, they only help on the branch where t holds
                        mycands = [it for _, it in pri[: (24 if str(t) in top_level else NESTED_CAP)]]
                for c in mycands:
                    if kv.args[0] in consts_of([c]):
                        continue
                    kk = ("fa", str(t), str(c))
                    if kk in done_other:
                        continue
                    done_other.add(kk)
                    m = {kv.args[0]: c}
                    inst_body = Implies(subst(rng, m), subst(body, m))
                    # a universally quantified formula that is itself an assumption needs no guard
                    new.append(inst_body if str(t) in top_level else Implies(t, inst_body))
        # element-wise facts pass to sub-sequences: a top-level  forall k in [0, len(L)): phi(L[k])  holds for every element of
        # a sequence derived from L by filter-shaped spec functions, concatenation of such, and constants the assumptions
        # define as such (every element of a derived sequence is an element of L); instantiated at the index terms at
        # which the derived sequence is read
        seq_all = persist.setdefault("seq_terms", {})
        idx_all = persist.setdefault("idx_all", {})
        for t in allsub.values():
            if (t.op.startswith("hom_") or t.op in ("seq.++", "sorted_int")) and isinstance(t.sort, tuple):
                seq_all.setdefault(str(t), t)
            if t.op == "sorted_int":
                kk = ("sorted", str(t))
                if kk not in done_other:
                    done_other.add(kk)
                    new.append(Eq(Len(t), Len(t.args[0])))
        for ks, d in idx_terms.items():
            idx_all.setdefault(ks, {}).update(d)
        for t in list(fa_all.values()):
            if str(t) not in top_level:
                continue
            kv, rng, body = t.args
            if kv.sort != INT or rng.op != "and" or len(rng.args) != 2:
                continue
            lo_c, hi_c = rng.args
            if not (lo_c.op == "<=" and str(lo_c.args[0]) == "0" and str(lo_c.args[1]) == str(kv) and hi_c.op == "<" and str(hi_c.args[0]) == str(kv) and hi_c.args[1].op == "seq.len"):
                continue
            L0 = hi_c.args[1].args[0]
            elem = Nth(L0, kv)
            ph = Const("elem!lift", L0.sort[1])
            phi = subst_term(body, elem, ph)
            if kv.args[0] in consts_of([phi]):
                continue  # the body uses k otherwise than as L[k]
            derived = {str(L0)}

            def is_derived(x):
                if str(x) in derived:
                    return True
                if x.op.startswith("hom_"):
                    if filter_shape(Hom(x, templates)):
                        return is_derived(x.args[0])
                    return False
                if x.op == "sorted_int":
                    return is_derived(x.args[0])
                if x.op == "seq.++":
                    return all(is_derived(a) for a in x.args)
                if x.op == "#const" and str(x) in seq_defs:
                    return any(is_derived(d) for d in seq_defs[str(x)])
                return False

            for ks, its in list(idx_all.items()):
                if ks == str(L0):
                    continue
                # the sequence whose elements are read: a constant with a definition, a filter term or a concatenation
                xs = None
                if ks in seq_defs:
                    xs = Const(ks, L0.sort)
                elif ks in seq_all:
                    xs = seq_all[ks]
                if xs is None or xs.sort != L0.sort or not is_derived(xs):
                    continue
                for it_s, it in list(its.items())[:12]:
                    kk = ("lift", str(t), ks, it_s)
                    if kk in done_other:
                        continue
                    done_other.add(kk)
                    new.insert(0, Implies(And(Le(I(0), it), Lt(it, Len(xs))), subst_term(phi, ph, Nth(xs, it))))
        added = [t for t in new if add(t)]
        if not added:
            break
        work = added
    return out
