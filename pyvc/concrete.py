# -*- coding: utf-8 -*-
"""Concrete interpreter of the contract text: the same requires/ensures strings that the
symbolic executor turns into SMT are evaluated here by CPython on the REAL function.

Used for (1) replaying solver counterexamples, (2) the enumerative search for a failing
input when a model does not replay, (3) the CPython cross-check of every contract
(an obligation discharged symbolically that fails concretely is a checker fault) and
(4) bounded stand-ins for functions outside the symbolic subset.
"""
import ast
import copy
import importlib
import itertools
import random

from .values import parse_type


def J(xs):
    return "".join(xs)


def forall(f, lo, hi):
    return all(f(k) for k in range(lo, hi))


def exists(f, lo, hi):
    return any(f(k) for k in range(lo, hi))


VOCAB = {
    "J": J,
    "forall": forall,
    "exists": exists,
    "isspace": lambda s: s.isspace(),
    "isdigit": lambda s: s.isdigit(),
    "len": len,
}


class _OldLift(ast.NodeTransformer):
    def __init__(self):
        self.olds = []

    def visit_Call(self, node):
        if isinstance(node.func, ast.Name) and node.func.id == "old":
            self.olds.append(node.args[0])
            return ast.copy_location(ast.Name(id="__old_%d" % (len(self.olds) - 1), ctx=ast.Load()), node)
        if isinstance(node.func, ast.Name) and node.func.id == "implies":
            a = self.visit(node.args[0])
            b = self.visit(node.args[1])
            return ast.copy_location(ast.BoolOp(op=ast.Or(), values=[ast.UnaryOp(op=ast.Not(), operand=a), b]), node)
        return self.generic_visit(node)


def compile_spec(src):
    tree = ast.parse(src.strip(), mode="eval")
    lift = _OldLift()
    tree = lift.visit(tree)
    ast.fix_missing_locations(tree)
    code = compile(tree, "<spec>", "eval")
    olds = []
    for o in lift.olds:
        e = ast.Expression(body=o)
        ast.fix_missing_locations(e)
        olds.append(compile(e, "<old>", "eval"))
    return code, olds


def real_function(qual):
    parts = qual.split(".")
    for k in range(len(parts) - 1, 0, -1):
        try:
            mod = importlib.import_module(".".join(parts[:k]))
        except ImportError:
            continue
        obj = mod
        try:
            for p in parts[k:]:
                obj = getattr(obj, p)
        except AttributeError:
            continue
        return obj
    raise ImportError(qual)


def snapshot(v):
    """copy containers, keep other objects by reference (old(x) must preserve object identity)"""
    if isinstance(v, list):
        return [snapshot(x) for x in v]
    if isinstance(v, tuple):
        return tuple(snapshot(x) for x in v)
    if isinstance(v, dict):
        return {k: snapshot(x) for k, x in v.items()}
    if isinstance(v, set):
        return set(v)
    return v


class Outcome(object):
    def __init__(self, status, detail=None, args=None):
        self.status = status  # pre-false | ok | post-fail | raised | spec-error
        self.detail = detail
        self.args = args


def check_call(qual, contract, args, vocab=None, fn=None):
    """args: dict param -> python value (will be mutated by the real call)."""
    env = dict(VOCAB)
    if vocab:
        env.update(vocab)
    fn = fn or real_function(qual)
    names = list(args)
    try:
        for r in contract.get("requires", []) + contract.get("assume", []):
            code, _ = compile_spec(r)
            if not eval(code, dict(env, **args)):
                return Outcome("pre-false")
    except Exception as e:
        return Outcome("pre-false", "requires raised %r" % (e,))
    ens = [compile_spec(e) for e in contract.get("ensures", [])]
    frame_old = snapshot(args)
    oldvals = []
    for code, olds in ens:
        ov = {}
        for i, oc in enumerate(olds):
            try:
                ov["__old_%d" % i] = snapshot(eval(oc, dict(env, **args)))
            except Exception as e:
                return Outcome("spec-error", "old() raised %r" % (e,))
        oldvals.append(ov)
    shown = repr_args(args)
    allowed = contract.get("raises", "nothing")
    try:
        result = fn(*[args[n] for n in names])
    except Exception as e:
        if allowed != "nothing" and type(e).__name__ in allowed:
            return Outcome("ok")
        o = Outcome("raised", "%s: %s" % (type(e).__name__, e), shown)
        o.exc = e
        return o
    for (code, olds), ov, src in zip(ens, oldvals, contract.get("ensures", [])):
        loc = dict(args)
        loc.update(ov)
        loc["result"] = result
        try:
            ok = eval(code, dict(env, **loc))
        except Exception as e:
            return Outcome("post-fail", "ensures %r raised %r (result=%r)" % (src, e, short(result)), shown)
        if not ok:
            return Outcome("post-fail", "ensures %r is false (result=%r)" % (src, short(result)), shown)
    rt = contract.get("returns")
    if rt and parse_type(rt).kind not in ("opt", "none") and result is None:
        return Outcome("post-fail", "returned None, contract says %s" % rt, shown)
    # frame: parameters not in `modifies` keep their value (lists / object fields)
    mod = set(contract.get("modifies", []))
    for n in names:
        if n in mod or any(m.startswith(n + ".") for m in mod) or any(m.startswith("heap:") for m in mod):
            continue
        if isinstance(args[n], list) and args[n] != frame_old[n]:
            return Outcome("post-fail", "frame: parameter %s was modified" % n, shown)
    return Outcome("ok")


def short(v):
    r = repr(v)
    return r if len(r) < 300 else r[:300] + "..."


def repr_args(args):
    out = {}
    for k, v in args.items():
        if isinstance(v, (str, int, bool, list, tuple, dict, type(None))):
            out[k] = copy.deepcopy(v)
        else:
            d = getattr(v, "__dict__", None)
            out[k] = {"__class__": type(v).__module__ + "." + type(v).__name__, "fields": {a: copy.deepcopy(b) for a, b in (d or {}).items() if isinstance(b, (str, int, bool, list, type(None)))}}
    return out


# ------------------------------------------------------------------ generators
class Gen(object):
    def __init__(self, alphabet, builders=None, seed=0, ints=(-1, 0, 1, 2, 3, 5)):
        self.alphabet = alphabet
        self.builders = builders or {}
        self.rng = random.Random(seed)
        self.ints = ints

    def value(self, ty, size):
        k = ty.kind
        r = self.rng
        if k == "int":
            return r.choice(self.ints)
        if k == "bool":
            return r.random() < 0.5
        if k == "str":
            return "".join(r.choice(self.alphabet) for _ in range(r.randint(0, size)))
        if k == "list":
            return [self.value(ty.arg, max(1, size // 2)) for _ in range(r.randint(0, size))]
        if k == "opt":
            return None if r.random() < 0.3 else self.value(ty.arg, size)
        if k == "obj":
            b = self.builders.get(ty.arg)
            if b is None:
                raise KeyError("no builder for " + str(ty.arg))
            return b(self, size)
        if k == "none":
            return None
        raise KeyError("no generator for %r" % ty)

    def args_for(self, fdef_names, types, size):
        return {n: self.value(parse_type(types[n]), size) for n in fdef_names}


def enumerate_strings(alphabet, maxlen):
    for n in range(maxlen + 1):
        for tup in itertools.product(alphabet, repeat=n):
            yield "".join(tup)


# ------------------------------------------------------------- concrete spec functions
def hom_vocab(homs, extra=None):
    """python implementations of the homomorphic spec functions: fold of the unit expression"""
    env = dict(VOCAB)
    env["irange"] = lambda a, b: list(range(a, b))
    if extra:
        env.update(extra)

    def make(name, d):
        code = compile(ast.parse(d["unit"].strip(), mode="eval"), "<hom %s>" % name, "eval")
        ctxn = [c for c, t in d.get("ctx", [])]
        kind = d["result"]

        def f(xs, *ctx):
            out = "" if kind == "str" else 0 if kind == "int" else []
            for x in xs:
                loc = dict(env)
                loc["x"] = x
                loc.update(zip(ctxn, ctx))
                out = out + eval(code, loc)
            return out

        return f

    for n, d in homs.items():
        env[n] = make(n, d)
    return env
