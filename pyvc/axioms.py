# -*- coding: utf-8 -*-
"""Validation against the running CPython of every lemma schema that pyvc/lemmas.py instantiates
for uninterpreted spec functions (assumption A2).  A failure is a checker fault, not a verdict."""
import itertools
import random
import sys

ALPH = ["a", "1", " ", "\t", "e", "B", " ", "٣", "x", "'", " ", "²"]


def J(xs):
    return "".join(xs)


def ext(s, a, n):
    """SMT-LIB seq.extract"""
    if a < 0 or a >= len(s) or n <= 0:
        return s[:0]
    return s[a : a + n]


def validate(seed=0):
    n = 0
    r = random.Random(seed)
    # J schemas on random lists of short strings
    for _ in range(3000):
        s = [r.choice(["", "a", "bc", " ", '"x"', "\\"]) for _ in range(r.randint(0, 6))]
        t = [r.choice(["", "a", "bc"]) for _ in range(r.randint(0, 3))]
        a, m, k = r.randint(-1, 7), r.randint(-1, 7), r.randint(-1, 7)
        assert J([]) == "" and J(s + t) == J(s) + J(t)
        e = ext(s, a, m)
        if m <= 0 or a < 0 or a >= len(s):
            assert J(e) == ""
        if 0 <= a < len(s) and m == 1:
            assert J(e) == s[a]
        if a == 0 and m >= len(s):
            assert J(e) == J(s)
        if a >= 0 and m >= 0:  # partition
            end = a + m
            assert J(s) == J(ext(s, 0, a)) + J(e) + J(ext(s, end, len(s) - end)), (s, a, m)
        if a >= 0 and 0 <= m <= k:  # common start / prefix
            assert J(ext(s, a, k)) == J(ext(s, a, m)) + J(ext(s, a + m, k - m)), (s, a, m, k)
        n += 6
    # filter_origin: every element of a filter-shaped spec function F(l) = sum([x] if P(x) else []) is an element of l
    for _ in range(2000):
        l = [r.randint(0, 5) for _ in range(r.randint(0, 7))]
        pset = set(r.sample(range(6), r.randint(0, 6)))
        f = [x for x in l if x in pset]
        for k in range(len(f)):
            assert any(f[k] is l[c] or f[k] == l[c] for c in range(len(l)))
        n += 1
    # sorted_int: same length, every element of sorted(l) is an element of l
    for _ in range(500):
        l = [r.randint(-3, 9) for _ in range(r.randint(0, 7))]
        sl = sorted(l)
        assert len(sl) == len(l) and all(x in l for x in sl)
        assert all(sl[a] <= sl[b] for a in range(len(sl)) for b in range(a, len(sl)))  # sorted-asc
        n += 1
    # isspace / isdigit of a concatenation, exhaustively over short strings
    strs = [""] + ["".join(p) for k in (1, 2) for p in itertools.product(ALPH, repeat=k)]
    for a in strs:
        for b in strs[:40]:
            for f in (str.isspace, str.isdigit):
                assert f(a + b) == ((a + b != "") and (a == "" or f(a)) and (b == "" or f(b))), (a, b)
                n += 1
            assert (not (a + b).isspace()) or (a + b) != ""
    # split always returns at least one element
    for a in strs:
        for sep in ("e", ".", ":"):
            assert len(a.split(sep)) >= 1
            n += 1
    # character axiom behind the bit-string split: a string whose lower() ends in b/o/x/d is
    # non-empty and its last character is not a digit  (digits are caseless; checked for every code point)
    ctx = ["", "a", "1", "Σ", "ΑΣ", "İ"]
    for cp in range(sys.maxunicode + 1):
        c = chr(cp)
        if c.isdigit():
            for p in ctx:
                low = (p + c).lower()
                assert low and not low.endswith(("b", "o", "x", "d")), hex(cp)
            n += 1
    assert not "".lower().endswith(("b", "o", "x", "d"))
    return n
