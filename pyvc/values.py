# -*- coding: utf-8 -*-
"""Run-time (symbolic) value wrappers used by the symbolic executor."""
from .terms import BOOL, INT, REF, STR, VAL, Seq, T


class ListV(object):
    """a python list: reference to a cell holding a Seq term (value + alias group)"""

    __slots__ = ("cell", "elem")

    def __init__(self, cell, elem):
        self.cell = cell  # cell id in State.cells
        self.elem = elem  # static element type descriptor (see parse_type)


class ObjV(object):
    """an object reference with a static class (qualified name) if known"""

    __slots__ = ("term", "cls")

    def __init__(self, term, cls=None):
        self.term = term
        self.cls = cls


class NoneV(object):
    def __repr__(self):
        return "NoneV"


NONE = NoneV()


class OptV(object):
    """value that may be None: isnone (Bool term) and payload value"""

    __slots__ = ("isnone", "val")

    def __init__(self, isnone, val):
        self.isnone = isnone
        self.val = val


class TupleV(object):
    __slots__ = ("items",)

    def __init__(self, items):
        self.items = list(items)


class DictV(object):
    """dict with symbolic keys: keys = Array K Bool, vals = Array K V (value semantics)"""

    __slots__ = ("keys", "vals", "ksort", "vtype")

    def __init__(self, keys, vals, ksort, vtype):
        self.keys = keys
        self.vals = vals
        self.ksort = ksort
        self.vtype = vtype


class RecV(object):
    """dict with constant string keys / record: name -> (present Bool term, value)"""

    __slots__ = ("fields",)

    def __init__(self, fields):
        self.fields = dict(fields)


class FuncV(object):
    __slots__ = ("qual", "bound")

    def __init__(self, qual, bound=None):
        self.qual = qual
        self.bound = bound


class ClassV(object):
    __slots__ = ("qual",)

    def __init__(self, qual):
        self.qual = qual


class ClassParamV(object):
    """a class received as a value: an unknown subclass of `base`"""

    __slots__ = ("base",)

    def __init__(self, base):
        self.base = base


class ModuleV(object):
    __slots__ = ("name",)

    def __init__(self, name):
        self.name = name


class IterV(object):
    """abstract finite iterable: length term + element function (python callable on Int term)"""

    __slots__ = ("len", "elem", "seq")

    def __init__(self, length, elem, seq=None):
        self.len = length
        self.elem = elem
        self.seq = seq  # underlying Seq term when iterating a real sequence prefix-wise


class Type(object):
    """static type descriptor"""

    def __init__(self, kind, arg=None):
        self.kind = kind  # int bool str list obj opt val tuple none dict
        self.arg = arg

    def __repr__(self):
        return "%s[%s]" % (self.kind, self.arg) if self.arg is not None else self.kind

    def sort(self):
        k = self.kind
        if k == "int":
            return INT
        if k == "bool":
            return BOOL
        if k == "str":
            return STR
        if k == "obj":
            return REF
        if k == "val":
            return VAL
        if k == "list":
            return Seq(self.arg.sort())
        if k == "map":
            from .terms import Arr

            return Arr(self.arg[0].sort(), self.arg[1].sort())
        raise ValueError("no sort for " + repr(self))


def parse_type(s):
    s = s.strip()
    if s in ("int", "bool", "str", "val", "none"):
        return Type(s)
    if s.startswith("list[") and s.endswith("]"):
        return Type("list", parse_type(s[5:-1]))
    if s.startswith("opt[") and s.endswith("]"):
        return Type("opt", parse_type(s[4:-1]))
    if s.startswith("obj:"):
        return Type("obj", s[4:])
    if s == "obj":
        return Type("obj", None)
    if s.startswith("cls:"):
        # a class object (e.g. a token class handed to a helper): some subclass of the named base
        return Type("cls", s[4:])
    if s.startswith("map[") and s.endswith("]"):
        k, v = split_top(s[4:-1])
        return Type("map", (parse_type(k), parse_type(v)))
    if s.startswith("dict[") and s.endswith("]"):
        k, v = split_top(s[5:-1])
        return Type("dict", (parse_type(k), parse_type(v)))
    if s.startswith("rec{") and s.endswith("}"):
        fields = []
        for part in split_all(s[4:-1].replace("{", "[").replace("}", "]")):
            k, v = part.split(":", 1)
            v = v.replace("[", "{", 0)
            fields.append((k.strip(), v.strip()))
        # restore braces of nested rec types
        out = []
        for k, v in fields:
            opt = k.endswith("?")
            out.append((k.rstrip("?"), opt, parse_type(_unbracket(v))))
        return Type("rec", out)
    if s.startswith("tuple[") and s.endswith("]"):
        return Type("tuple", [parse_type(x) for x in split_all(s[6:-1])])
    raise ValueError("bad type " + s)


def _unbracket(v):
    # nested rec types were bracketed for splitting: rec[...] -> rec{...}
    out = []
    i = 0
    while i < len(v):
        if v.startswith("rec[", i):
            depth = 0
            j = i + 3
            while j < len(v):
                if v[j] == "[":
                    depth += 1
                elif v[j] == "]":
                    depth -= 1
                    if depth == 0:
                        break
                j += 1
            out.append("rec{" + _unbracket(v[i + 4 : j]) + "}")
            i = j + 1
        else:
            out.append(v[i])
            i += 1
    return "".join(out)


def split_top(s):
    d = 0
    for i, c in enumerate(s):
        if c == "[":
            d += 1
        elif c == "]":
            d -= 1
        elif c == "," and d == 0:
            return s[:i], s[i + 1 :]
    raise ValueError(s)


def split_all(s):
    out, d, cur = [], 0, ""
    for c in s:
        if c == "[":
            d += 1
        elif c == "]":
            d -= 1
        if c == "," and d == 0:
            out.append(cur)
            cur = ""
        else:
            cur += c
    if cur.strip():
        out.append(cur)
    return out
