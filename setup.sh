#!/bin/sh
# offline setup: nothing to build; verify that the solver CLIs answer
set -e
cd "$(dirname "$0")"
for s in "/usr/bin/cvc5 --lang smt2" "z3-new -in" "/usr/bin/z3 -in"; do
  r=$(printf '(set-logic ALL)\n(declare-const x Int)\n(assert (and (> x 0) (< x 0)))\n(check-sat)\n' | $s 2>&1 | head -1)
  [ "$r" = "unsat" ] || { echo "solver $s not answering: $r"; exit 1; }
done
/venv/bin/python -c "import vsg, sys; print('vsg from', vsg.__file__)"
echo setup-ok
