#!/venv/bin/python
"""Regenerates the pipeline part of known_findings.json from a COMPLETE run of the finite universe of
bounded/runner.py on the current tree (./tools_known.py runs it if no cached result exists).  Manual entries
(those without "generated": true) and the "fixed" list are preserved.  Never called by a check."""
import json
import os
import re
import sys

HERE = os.path.dirname(os.path.abspath(__file__))
sys.path.insert(0, HERE)
from bounded import runner  # noqa: E402

CLASSES = [
    (r"type_00[89]", "type_008/type_009 (split_line_at_token...): nested protected-body regions overlap; both splices are applied and 'end protected body;' is duplicated"),
    (r"is followed by .* on the same line", "a line-joining / token-moving fix removed the line break after a '--' comment, so the comment swallows the code that follows"),
    (r"#ifdef|#endif|SIM_\d|pre$", "preprocessor lines: indentation whitespace is merged into the preprocessor token on re-read (C08/C09) / blank-line rules delete or move them"),
    (r"a second --fix changed the file again|oscillates", "fixing does not converge for this input (alignment / indent / structure rules disagree between the in-memory model and a fresh parse)"),
    (r"token sequence of the in-memory model differs|report after fixing differs|has role .* in memory but|indent level", "the in-memory model after fixing differs from a fresh parse of the emitted text"),
    (r"rejected by VSG|re-reading", "the emitted text is not accepted / crashes the classifier when re-read"),
    (r"TypeError: unsupported operand", "constant_016 (multiline_structure) raises TypeError (iLine is None) on this input"),
    (r"altered the in-memory file|changed the violations of other rules", "analysis is not read-only: align_consecutive_lines_starting_with_a_comment... calls set_indent on comment tokens during _analyze, which changes comment_010's verdict"),
    (r"second fix by the same rule", "the rule's own second fix changes the file again"),
]


def classify(msg, variant):
    for pat, what in CLASSES:
        if re.search(pat, msg) or (pat.endswith("pre$") and variant == "pre" and re.search("differs|second --fix|rejected", msg)):
            return what
    return msg[:160]


def main():
    res, cached = runner.run_all("thorough", 0)
    p = os.path.join(HERE, "known_findings.json")
    d = json.load(open(p))
    manual = [k for k in d.get("findings", []) if not k.get("generated")]
    gen = {}
    for pid in runner.PIDS:
        for f in runner.findings(res, pid):
            name = "pipeline:%s:%s" % (pid, f["rule"] or "-")
            wit = "%s|%s|%s" % (f["file"], f["config"], f["variant"])
            key = (pid, name, wit)
            if key not in gen:
                gen[key] = {"property": pid, "name": name, "witness": wit, "status": "open", "generated": True, "what": "%s [%s]: %s" % (name, wit, classify(f["message"], f["variant"]))}
    d["findings"] = manual + [gen[k] for k in sorted(gen)]
    d["generated_from"] = {"tree_hash": runner.tree_hash(), "universe_runs": len(res), "entries": len(gen)}
    json.dump(d, open(p, "w"), indent=0)
    print("known findings: %d manual + %d generated (universe of %d runs, cached=%s)" % (len(manual), len(gen), len(res), cached))


if __name__ == "__main__":
    main()
