#!/venv/bin/python
"""Confirms every seeded change under /verif/seeded in a scratch worktree (outside /repo and /verif):
   demo fails with the change, passes without it, and the repository's own test suite passes with it.
   Usage: tools_seeded.py confirm [name...]   |   tools_seeded.py detect [name...]
   `detect` applies each patch to /repo, runs the quick check(s) of the property, undoes it and records what fired."""
import json
import os
import subprocess
import sys
import tempfile

HERE = os.path.dirname(os.path.abspath(__file__))
SEEDED = os.path.join(HERE, "seeded")


def sh(cmd, cwd=None, env=None, timeout=3600):
    p = subprocess.run(cmd, shell=True, cwd=cwd, env=env, capture_output=True, text=True, timeout=timeout)
    return p.returncode, (p.stdout + p.stderr)


def meta_path(name):
    return os.path.join(SEEDED, name, "meta.json")


def load_meta(name):
    p = meta_path(name)
    return json.load(open(p)) if os.path.exists(p) else {"name": name, "property": name.split("_")[0]}


def save_meta(name, m):
    json.dump(m, open(meta_path(name), "w"), indent=1)


def confirm(name):
    d = os.path.join(SEEDED, name)
    wt = tempfile.mkdtemp(prefix="sw_%s_" % name.split("_")[0])
    os.rmdir(wt)
    m = load_meta(name)
    try:
        rc, out = sh("git -C /repo worktree add -q --detach %s HEAD" % wt)
        env = dict(os.environ)
        env["PYTHONPATH"] = wt
        env.pop("PYTHONDONTWRITEBYTECODE", None)
        demo = os.path.join(wt, "demo_seeded.py")
        src = open(os.path.join(d, "demo.py")).read()
        # the demo was written against its author's worktree path: point it at this scratch tree
        import re

        src = re.sub(r"/tmp/wt\d*_C\d+[a-z]?", wt, src)
        open(demo, "w").write(src)
        rc0, o0 = sh("/venv/bin/python -W ignore %s" % demo, cwd=wt, env=env, timeout=1800)
        rca, oa = sh("git apply %s" % os.path.join(d, "patch.diff"), cwd=wt)
        rc1, o1 = sh("/venv/bin/python -W ignore %s" % demo, cwd=wt, env=env, timeout=1800)
        rcs, os_ = sh("/venv/bin/python -m pytest -q -p no:cacheprovider --timeout=900 -n 8 -rf 2>&1 | tail -12", cwd=wt, env=env, timeout=3600)
        tail = os_.strip().split("\n")[-1]
        failed = sorted(set(re.findall(r"^FAILED (\S+)", os_, re.M)))
        if failed:
            # tests the baseline itself lists as flaky or always failing (/root/.vp/BASELINE.json) do not count
            base = json.load(open("/root/.vp/BASELINE.json"))
            unstable = set(base.get("flaky", [])) | set(base.get("always_fail", []))
            norm = lambda t: t.replace(".py::", ".", 1).replace("/", ".")
            real = [t for t in failed if norm(t) not in unstable]
            if not real:
                tail = tail.replace(" failed,", " failed-but-listed-flaky-in-BASELINE,") + "  [%s]" % ", ".join(failed)
        m["confirmed"] = {
            "demo_without_change_exit": rc0,
            "patch_applies": rca == 0,
            "demo_with_change_exit": rc1,
            "demo_with_change_last_lines": o1.strip().split("\n")[-3:],
            "test_suite_with_change": tail,
            "commands": ["git -C /repo worktree add --detach <scratch> HEAD", "PYTHONPATH=<scratch> /venv/bin/python demo.py   (exit %d)" % rc0, "git apply patch.diff", "PYTHONPATH=<scratch> /venv/bin/python demo.py   (exit %d)" % rc1, "env -u PYTHONDONTWRITEBYTECODE PYTHONPATH=<scratch> /venv/bin/python -m pytest -q -p no:cacheprovider --timeout=900 -n 8", "git -C /repo worktree remove --force <scratch>"],
            "repo_commit": sh("git -C /repo rev-parse --short HEAD")[1].strip(),
        }
        ok = rc0 == 0 and rca == 0 and rc1 != 0 and (" passed" in tail and " failed," not in tail and " failed in" not in tail)
        m["confirmed"]["ok"] = ok
        save_meta(name, m)
        print("%-34s demo %d -> %d, suite: %s  => %s" % (name, rc0, rc1, tail[:200], "CONFIRMED" if ok else "NOT CONFIRMED"))
    finally:
        sh("git -C /repo worktree remove --force %s" % wt)


def detect(name):
    d = os.path.join(SEEDED, name)
    m = load_meta(name)
    pid = m["property"]
    props = m.get("checks", [pid])
    rc, out = sh("git -C /repo apply %s" % os.path.join(d, "patch.diff"))
    if rc != 0:
        print(name, "patch does not apply to /repo:", out[:200])
        return
    res = {}
    # the evidence files committed under /verif must come from runs on the unchanged tree: keep them aside
    import shutil

    keep = tempfile.mkdtemp(prefix="evid_")
    for p in props:
        src = os.path.join(HERE, "evidence", "%s.json" % p)
        if os.path.exists(src):
            shutil.copyfile(src, os.path.join(keep, "%s.json" % p))
    try:
        for p in props:
            rc, out = sh("./check %s --tier quick" % p, cwd=HERE, timeout=3600)
            lines = [l for l in out.split("\n") if l.startswith("VIOLATION")]
            names = []
            for l in lines[:4]:
                try:
                    rp = l.split("replay=")[1].split()[0]
                    names.append(json.load(open(rp))["name"])
                except Exception:
                    names.append("?")
            res[p] = {"exit": rc, "violation_lines": len(lines), "fired": names}
    finally:
        sh("git -C /repo checkout -- .")
        for p in props:
            src = os.path.join(keep, "%s.json" % p)
            if os.path.exists(src):
                shutil.copyfile(src, os.path.join(HERE, "evidence", "%s.json" % p))
        shutil.rmtree(keep, ignore_errors=True)
    m["detected_by"] = res
    save_meta(name, m)
    print("%-34s %s" % (name, {k: (v["exit"], v["fired"][:2]) for k, v in res.items()}))


if __name__ == "__main__":
    mode = sys.argv[1]
    names = sys.argv[2:] or sorted(x for x in os.listdir(SEEDED) if os.path.isdir(os.path.join(SEEDED, x)))
    for n in names:
        (confirm if mode == "confirm" else detect)(n)
