# -*- coding: utf-8 -*-
"""Search for a failing input of a fix base's contract on the REAL method (replay of a failed obligation): real rule object of a
class that inherits the base's _fix_violation, real token objects in a real region and violation, seeded option / action values.
The contract text (requires filters, ensures decides) is evaluated by pyvc.concrete, as everywhere else."""
import importlib
import random
import re

from pyvc import concrete

_RULES = {}


def _rule_for(q):
    """a real, configured rule object whose _fix_violation is the function q names"""
    if not _RULES:
        import vsg.rule_list as rl
        from vsg import severity, vhdlFile

        o = vhdlFile.vhdlFile([""])
        R = rl.rule_list(o, severity.create_list({}))
        for r in R.rules:
            f = type(r)._fix_violation
            _RULES.setdefault(f.__module__ + "." + f.__qualname__, r)
    return _RULES.get(q.split("@")[0])


def _tokens(r):
    from vsg import parser, token

    pool = [
        lambda: parser.whitespace(" " * r.choice([1, 1, 2, 5])),
        lambda: parser.carriage_return(),
        lambda: parser.blank_line(),
        lambda: parser.comment("-- c"),
        lambda: parser.todo(r.choice(["x", "Sig_A", "'X'"])),
        lambda: token.signal_declaration.identifier(r.choice(["s", "WR_en"])),
        lambda: token.signal_declaration.colon(":"),
        lambda: parser.open_parenthesis(),
        lambda: parser.comma(),
    ]
    n = r.choice([1, 2, 2, 3, 3, 3, 4, 5])
    toks = [r.choice(pool)() for _ in range(n)]
    for t in toks:
        t.indent = r.choice([None, 0, 1, 2])
    return toks


def _action(ftype, r):
    """a value of the declared action type, e.g. opt[rec{spaces:int}] / opt[str] / opt[rec{value:opt[str],index:int}]"""
    if ftype is None:
        return None
    t = ftype.strip()
    if t.startswith("opt["):
        if r.random() < 0.05:
            return None
        t = t[4:-1]
    if t == "str":
        return r.choice(["remove_whitespace", "adjust_whitespace", "add_whitespace", "Insert", "Remove", "x"])
    if t.startswith("rec{"):
        out = {}
        for part in re.findall(r"(\w+)\??:((?:opt\[)?\w+\]?)", t[4:-1]):
            k, ty = part
            if ty == "int":
                out[k] = r.choice([-1, 0, 0, 1, 1, 2, 3])
            elif ty == "str":
                out[k] = r.choice(["Insert", "Remove", "x", "SIG_A", "sig_a"])
            elif ty == "opt[str]":
                out[k] = r.choice([None, "X", "x", "Sig_A", "sig_a", "SIG_A"])
        return out
    return None


def searcher(engine, vocab, n=4000, seed=0):
    def search(q, ct):
        from vsg import violation
        from vsg.vhdlFile.extract import tokens as toimod

        rule = _rule_for(q)
        if rule is None:
            return None
        modname, clsname, fname = q.split("@")[0].rsplit(".", 2)
        real = getattr(importlib.import_module(modname), clsname).__dict__[fname]
        ftype = (ct.get("fields") or {}).get("vsg.violation.New.action")
        r = random.Random(seed)
        for i in range(n):
            toks = _tokens(r)
            oToi = toimod.New(3, 2, toks)
            v = violation.New(2, oToi, "solution")
            act = _action(ftype, r)
            if isinstance(act, dict) and "expected" in act and toks:
                act["expected"] = r.choice([toks[0].get_value(), toks[0].get_value().upper(), toks[0].get_value().lower(), "zz"])
            if isinstance(act, dict) and "value" in act and toks and r.random() < 0.7:
                act["value"] = r.choice([None, toks[0].get_value().upper(), toks[0].get_value().lower()])
            v.set_action(act)
            for attr, vals in (("number_of_spaces", [0, 1, 2, ">0", ">=0", "0+", "<1", ">=1", "<=0"]), ("indent_size", [0, 2, 4]), ("indent_style", ["spaces", "smart_tabs"])):
                if hasattr(rule, attr):
                    setattr(rule, attr, r.choice(vals))
            before = [(type(t).__module__.split(".")[-1] + "." + type(t).__name__, t.get_value(), t.indent) for t in toks]
            out = concrete.check_call(q, ct, {"self": rule, "oViolation": v}, vocab, fn=real)
            if out.status in ("post-fail", "raised"):
                after = [(type(t).__module__.split(".")[-1] + "." + type(t).__name__, t.get_value(), t.indent) for t in oToi.get_tokens()]
                out.args = {"rule_class": type(rule).__module__ + "." + type(rule).__name__, "options": {a: getattr(rule, a) for a in ("number_of_spaces", "indent_size", "indent_style") if hasattr(rule, a)}, "action": act, "region_before": before, "region_after": after}
                return out
        return None

    return search
