# -*- coding: utf-8 -*-
"""Hand-written configurations of the bounded universe (the documented ones are harvested by docconfigs.py).  Kept out of
pipeline.py so that adding one does not invalidate the cached results of the other jobs."""
CONFIGS = {
    "default": {},
    "jcl": "jcl",
    "indent_only": "indent_only",
    "upper": {"rule": {"group": {"case::keyword": {"case": "upper"}, "case": {"case": "upper"}}}},
    "no_structure": {"rule": {"group": {"structure": {"disable": True}}}},
    "endlabels": {"rule": {"loop_statement_007": {"disable": False}, "block_007": {"disable": False}, "generate_011": {"disable": False}, "case_generate_statement_500": {"disable": False}}},
    "fix_warnings": {"rule": {"group": {"whitespace": {"severity": "Warning"}, "case": {"fixable": False}}}},
    # every documented form of the white-space option with a zero bound (docs/configuring_whitespace_rules.rst)
    "spaces_gt0": {"rule": {"global": {"number_of_spaces": ">0"}}},
    "spaces_ge0": {"rule": {"global": {"number_of_spaces": ">=0"}}},
    "spaces_0plus": {"rule": {"global": {"number_of_spaces": "0+"}}},
    "spaces_lt1": {"rule": {"global": {"number_of_spaces": "<1"}}},
    "spaces_0": {"rule": {"global": {"number_of_spaces": 0}}},
    # documented values of the alignment options (docs/configuring_keyword_alignment_rules.rst), both ways
    "align_a": {"rule": {"global": {"compact_alignment": "yes", "blank_line_ends_group": "no", "comment_line_ends_group": "no", "separate_generic_port_alignment": "no", "if_control_statements_ends_group": "yes", "case_control_statements_ends_group": "break_on_case_or_end_case", "generate_statements_ends_group": "yes", "loop_control_statements_ends_group": "yes"}}},
    "align_b": {"rule": {"global": {"compact_alignment": "no", "blank_line_ends_group": "yes", "comment_line_ends_group": "yes", "separate_generic_port_alignment": "yes", "if_control_statements_ends_group": "no", "case_control_statements_ends_group": "yes", "generate_statements_ends_group": "no", "loop_control_statements_ends_group": "no"}}},
    "smart_tabs": {"rule": {"global": {"indent_style": "smart_tabs"}}},
    # skip lists (the configuration is the default one; the list is passed to rule_list.fix by the runner)
    # the use-clause indent options with different values (docs/configuring_use_clause_indenting.rst)
    "use_indent": {"indent": {"tokens": {"use_clause": {"keyword": {"token_after_library_clause": "+1", "token_if_no_matching_library_clause": "current"}}}}},
    "skip1": {},
    "caseonly": {},
}
# one rule group switched off at a time (docs/rule_groups.rst): the rules that remain see input the switched-off group would
# otherwise have normalised first (a consistency rule without the case rule in front of it, alignment without white space, ...)
GROUPS = ["alignment", "blank_line", "case", "case::keyword", "case::label", "case::name", "indent", "length", "naming", "structure", "structure::optional", "whitespace"]
for _g in GROUPS:
    CONFIGS["nogrp:" + _g] = {"rule": {"group": {_g: {"disable": True}}}}
SKIPS = {"skip1": [1], "caseonly": [1, 2, 3, 4, 5]}

