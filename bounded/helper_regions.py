# -*- coding: utf-8 -*-
"""Bounded stand-in for C18 on a region helper no shipped rule calls in every mode:
get_tokens_starting_with_token_and_ending_with_one_of_possible_tokens (its default mode, without the start token, is only reached
through the documented rule base token_case_subtype_indication, i.e. by user-written rules).  For a corpus file and two of its
re-layouts (comments / line breaks between a delimiter and its neighbour) the REAL helper is called with start and end classes drawn
from the file itself, in six of the eight flag combinations; every region must be lAllObjects[start:start+len] by identity.
Excluded: start token and end token both left out (no rule and no rule base calls the helper that way): there the unchanged helper
records a start one too small when nothing but white space stands between the two tokens (observed on the unchanged tree, described
in DESIGN section 3 as an observation outside the property: such a region is never handed to a rule)."""
import hashlib
import itertools
import random

from bounded import corpus, pipeline, relayout


def one(path):
    K = pipeline.kinds()
    o = corpus.parse(path)
    if o is None:
        return (path, 0, None)
    seed = int(hashlib.sha1(path.split("/tests/")[-1].encode()).hexdigest()[:8], 16)
    r = random.Random(seed)
    calls = 0
    for kind in (None, "sep", "pragma"):
        f = o
        if kind is not None:
            try:
                f = corpus.parse(path, relayout.relayout(o, K, kind, random.Random(seed)))
            except Exception:  # noqa (C05's business)
                f = None
            if f is None:
                continue
        lAll = f.lAllObjects
        classes = sorted({type(t) for t in lAll if pipeline.kind_of(t, K) == "code"}, key=lambda c: c.__module__ + c.__name__)
        if len(classes) < 3:
            continue
        for _ in range(6):
            lStart = r.sample(classes, 1)
            lEnd = r.sample(classes, r.randint(1, 2))
            for bS, bE, bF in itertools.product((False, True), repeat=3):
                if not bS and not bE:
                    continue  # see the module text: excluded mode
                calls += 1
                try:
                    lToi = f.get_tokens_starting_with_token_and_ending_with_one_of_possible_tokens(lStart, lEnd, bS, bE, bF)
                except Exception as e:  # noqa
                    return (path, calls, "%s: helper raises %r for start=%s end=%s flags=%s" % (kind, e, lStart[0].__name__, [c.__name__ for c in lEnd], (bS, bE, bF)))
                for oToi in lToi:
                    s, lt = oToi.iStartIndex, oToi.lTokens
                    if not (0 <= s and s + len(lt) <= len(lAll) and all(a is b for a, b in zip(lt, lAll[s : s + len(lt)]))):
                        return (path, calls, "re-layout %s, start class %s.%s, end classes %s, flags (start, end, earliest)=%s: region recorded at %d holds %r but the list has %r there" % (kind, lStart[0].__module__, lStart[0].__name__, [c.__name__ for c in lEnd], (bS, bE, bF), s, [t.get_value() for t in lt[:4]], [t.get_value() for t in lAll[s : s + 4]]))
    return (path, calls, None)
