# -*- coding: utf-8 -*-
"""Bounded stand-ins for C11 (code tags).

1. state machine: the real vhdlFile.set_code_tags + parser.item.has_code_tag on every sequence of tag events up
   to a length bound, against a set-level reference written from docs/code_tags.rst and the property statement.
2. file level (the property's own statement): violations of a tagged corpus file == violations of the same file
   with the tag comments replaced by neutral comments of equal length, minus those whose tokens carry a matching tag.
"""
import itertools
import random

# remarks are written with the colon detached (as in docs/code_tags.rst) and attached to the last word: the remark starts at the
# first ':' of the comment either way
EVENTS = [
    "-- vsg_off",
    "-- vsg_off a_001",
    "-- vsg_off b_002 : reason",
    "-- vsg_off a_001: reason b_002",
    "-- vsg_off: legacy code",
    "-- vsg_off a_001 b_002",
    "-- vsg_on",
    "-- vsg_on a_001",
    "-- vsg_on a_001: done",
    "-- vsg_on b_002 a_001",
    "-- vsg_disable_next_line a_001",
    "-- vsg_disable_next_line b_002: why",
    "CR",
    "code",
    "-- plain comment",
]
IDS = ["a_001", "b_002", "c_003"]


def reference(tokens):
    """tokens: list of ('cr'|'comment'|'code', text). returns list of frozenset tags per token."""
    S, N, ign = set(), set(), False
    out = []
    for kind, text in tokens:
        if kind == "cr":
            out.append(frozenset(S | N))
            if ign:
                ign = False
            else:
                N = set()
            continue
        if kind == "comment" and text.startswith("-- vsg_on"):
            out.append(frozenset(S | N))
            words = text.split(":")[0].split()
            if len(words) == 2:
                S, N = set(), set()
            else:
                S -= set(words[2:])
            continue
        if kind == "comment" and text.startswith("-- vsg_off"):
            words = text.split(":")[0].split()
            if len(words) == 2:
                S, N = {"all"}, set()
            else:
                S |= set(words[2:])
            out.append(frozenset(S | N))
            continue
        if kind == "comment" and text.startswith("-- vsg_disable_next_line"):
            words = text.split(":")[0].split()
            N |= set(words[2:])
            ign = True
            out.append(frozenset(S | N))
            continue
        out.append(frozenset(S | N))
    return out


def suppressed(tags, rule_id):
    return "all" in tags or rule_id in tags


def run_sequence(seq):
    from vsg import parser
    import importlib

    vf = importlib.import_module("vsg.vhdlFile.vhdlFile")

    toks, model = [], []
    for e in seq:
        if e == "CR":
            toks.append(parser.carriage_return())
            model.append(("cr", ""))
        elif e == "code":
            toks.append(parser.item("x"))
            model.append(("code", "x"))
        else:
            toks.append(parser.comment(e))
            model.append(("comment", e))
    vf.set_code_tags(toks)
    exp = reference(model)
    for i, (t, ex) in enumerate(zip(toks, exp)):
        if set(t.code_tags) != set(ex):
            return "token %d of %r: stamped %r, reference says %r" % (i, seq, t.code_tags, sorted(ex))
        for rid in IDS:
            if bool(t.has_code_tag(rid)) != suppressed(ex, rid):
                return "token %d of %r: has_code_tag(%r)=%r with tags %r, reference says %r" % (i, seq, rid, t.has_code_tag(rid), t.code_tags, suppressed(ex, rid))
    return None


def _chunk(args):
    first, maxlen = args
    n = 0
    for k in range(maxlen):
        for tup in itertools.product(EVENTS, repeat=k):
            n += 1
            why = run_sequence((first,) + tup)
            if why:
                return (n, why)
    return (n, None)


def exhaustive(maxlen, pmap):
    res = pmap(_chunk, [(e, maxlen) for e in EVENTS], chunksize=1)
    total = sum(r[0] for r in res)
    bad = [r[1] for r in res if r[1]]
    return total, (bad[0] if bad else None)


# ------------------------------------------------------------------ file level
def neutral(text):
    return text.replace("vsg_", "xsg_")


def _violations(lines, path):
    """all-phases violations of every rule: list of (rule id, line, solution, token-tag sets)"""
    from vsg import config, rule_list, severity, vhdlFile
    from vsg.exceptions import ClassifyError

    try:
        oFile = vhdlFile.vhdlFile(lines, sFilename=path)
    except ClassifyError:
        return None
    import importlib

    oFile.set_indent_map(importlib.import_module("vsg.vhdlFile.vhdlFile").default_conf.dIndent)
    oRules = rule_list.rule_list(oFile, severity.create_list({}))
    out = []
    for ph in range(1, 8):
        for o in oRules.rules:
            if o.phase == ph and not o.disable:
                try:
                    o.analyze(oFile)
                except Exception as e:  # crashes are C19's business
                    return ("crash", "%s: %r" % (o.unique_id, e))
    for o in oRules.rules:
        for v in o.violations:
            try:
                toks = v.oTokens.get_tokens()
                tags = [frozenset(t.code_tags) for t in toks]
            except Exception:
                tags = []
            out.append((o.unique_id, v.get_line_number(), v.get_solution(), tags))
    return out, oFile


def file_case(args):
    path, seed = args
    from bounded import corpus

    r = random.Random(seed)
    lines = corpus.read_lines(path)
    base = _violations(lines, path)
    if base is None or base[0] == "crash":
        return (path, "skip", None)
    viols, _ = base
    ids = sorted({v[0] for v in viols}) or ["process_016"]
    # insert tag comments at seeded line boundaries
    tagged = list(lines)
    ninsert = r.randint(1, 4)
    desc = []
    for _ in range(ninsert):
        pos = r.randint(0, len(tagged))
        kind = r.choice(["off", "off", "on", "next", "off_ids", "on_ids"])
        pick = " ".join(r.sample(ids, min(len(ids), r.randint(1, 2))))
        text = {"off": "-- vsg_off", "on": "-- vsg_on", "next": "-- vsg_disable_next_line " + pick, "off_ids": "-- vsg_off " + pick, "on_ids": "-- vsg_on " + pick}[kind]
        indent = ""
        tagged.insert(pos, indent + text)
        desc.append((pos, text))
    neut = [neutral(l) if l.lstrip().startswith("-- vsg_") and l in [d[1] for d in desc] else l for l in tagged]
    a = _violations(tagged, path)
    b = _violations(neut, path)
    if a is None or b is None:
        return (path, "reject", "tag comments changed acceptance: tagged=%s neutral=%s" % (a is not None, b is not None))
    if a[0] == "crash" or b[0] == "crash":
        return (path, "skip", None)
    va, fa = a
    vb, fb = b
    # expected: neutral violations whose region carries no matching tag in the TAGGED parse.
    # regions are identical token-for-token (comments of equal length), so use the tagged file's stamps via the reference
    model = []
    from vsg import parser

    for t in fa.lAllObjects:
        if isinstance(t, parser.carriage_return):
            model.append(("cr", ""))
        elif isinstance(t, parser.comment):
            model.append(("comment", t.get_value()))
        else:
            model.append(("code", ""))
    ref = reference(model)
    pos = {id(t): i for i, t in enumerate(fb.lAllObjects)}
    expect = []
    for rid, line, sol, tags in vb:
        pass
    # recompute neutral violations with region positions
    oRulesN = None
    exp = []
    for rid, line, sol, region in _regions(neut, path):
        if any(suppressed(ref[i], rid) for i in region if i < len(ref)):
            continue
        exp.append((rid, line, sol))
    got = sorted((rid, line, sol) for rid, line, sol, tags in va)
    if sorted(exp) != got:
        missing = [x for x in sorted(exp) if x not in got][:2]
        extra = [x for x in got if x not in sorted(exp)][:2]
        return (path, "diff", "tags %r: reported-but-should-be-suppressed %r; suppressed-but-should-be-reported %r" % (desc, extra, missing))
    return (path, "ok", len(got))


def _regions(lines, path):
    from vsg import rule_list, severity, vhdlFile

    oFile = vhdlFile.vhdlFile(lines, sFilename=path)
    import importlib

    oFile.set_indent_map(importlib.import_module("vsg.vhdlFile.vhdlFile").default_conf.dIndent)
    oRules = rule_list.rule_list(oFile, severity.create_list({}))
    pos = {id(t): i for i, t in enumerate(oFile.lAllObjects)}
    out = []
    for ph in range(1, 8):
        for o in oRules.rules:
            if o.phase == ph and not o.disable:
                o.analyze(oFile)
    for o in oRules.rules:
        for v in o.violations:
            try:
                region = [pos[id(t)] for t in v.oTokens.get_tokens() if id(t) in pos]
            except Exception:
                region = []
            out.append((o.unique_id, v.get_line_number(), v.get_solution(), region))
    return out
