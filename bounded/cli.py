# -*- coding: utf-8 -*-
"""Bounded stand-ins that drive the real command line: C12 (configuration precedence), C14 (report formats and exit
status), C15 (jobs / order / neighbours / stdin), C17 (emitted configuration reproduces the run)."""
import json
import os
import random
import re
import shutil
import subprocess
import sys
import tempfile
import xml.etree.ElementTree as ET

REPO = os.environ.get("VSG_REPO", "/repo")

VSG = os.path.join(os.path.dirname(sys.executable), "vsg")


def cli(args, cwd, stdin=None):
    env = dict(os.environ)
    env["PYTHONWARNINGS"] = "ignore"
    return subprocess.run([VSG] + args, cwd=cwd, capture_output=True, text=True, timeout=900, input=stdin, env=env)


def parse_std(out):
    """rows of the standard output: (rule, severity, line, solution) per file block"""
    files = {}
    cur = None
    for l in out.split("\n"):
        m = re.match(r"^File:\s+(.*)$", l)
        if m:
            cur = m.group(1).strip()
            files[cur] = {"rows": [], "total": None, "sev": {}}
            continue
        if cur is None:
            continue
        m = re.match(r"^Total Violations:\s+(\d+)", l)
        if m:
            files[cur]["total"] = int(m.group(1))
        m = re.match(r"^\s+(\w[\w ]*?)\s*:\s+(\d+)\s*$", l)
        if m and files[cur]["total"] is not None:
            files[cur]["sev"][m.group(1)] = int(m.group(2))
        m = re.match(r"^\s\s(\w+_\d+)\s+\|\s+(\S+)\s+\|\s+(\d+)\s+\|\s(.*)$", l)
        if m:
            files[cur]["rows"].append((m.group(1), m.group(2), int(m.group(3)), m.group(4).rstrip()))
    return files


SEV_CFG = {"severity": {"Guideline": {"type": "warning"}, "Blocker": {"type": "error"}}}


def c14_case(args):
    path, seed = args
    r = random.Random(seed)
    d = tempfile.mkdtemp(prefix="c14_")
    probs = []
    try:
        f = os.path.join(d, "t.vhd")
        shutil.copyfile(path, f)
        cfg = dict(SEV_CFG)
        cfg["rule"] = {}
        # seeded severities on the rule groups, so that user-defined error and warning types both occur
        mode = r.choice(["builtin", "user_error", "user_warning", "mixed", "warn_only"])
        groups = ["case", "whitespace", "blank_line", "indent", "alignment", "structure", "length", "naming"]
        cfg["rule"]["group"] = {}
        for g in groups:
            if mode == "builtin":
                sev = r.choice(["Error", "Warning", None])
            elif mode == "user_error":
                sev = r.choice(["Blocker", "Blocker", None])
            elif mode == "user_warning":
                sev = "Guideline"
            elif mode == "warn_only":
                sev = r.choice(["Warning", "Guideline"])
            else:
                sev = r.choice(["Error", "Warning", "Blocker", "Guideline", None])
            if sev:
                cfg["rule"]["group"][g] = {"severity": sev}
        if mode in ("user_warning", "warn_only"):
            cfg["rule"]["global"] = {"severity": "Guideline" if mode == "user_warning" else "Warning"}
        cp = os.path.join(d, "c.json")
        json.dump(cfg, open(cp, "w"))
        types = {"Error": "error", "Warning": "warning", "Guideline": "warning", "Blocker": "error"}
        js, ju, qr = os.path.join(d, "o.json"), os.path.join(d, "o.xml"), os.path.join(d, "q.json")
        p1 = cli(["-f", f, "-c", cp, "-ap", "--json", js, "--junit", ju, "--quality_report", qr], d)
        p2 = cli(["-f", f, "-c", cp, "-ap", "-of", "syntastic"], d)
        p3 = cli(["-f", f, "-c", cp, "-ap", "-of", "summary"], d)
        if "Traceback" in p1.stderr + p2.stderr + p3.stderr:
            return (path, mode, ["traceback: " + (p1.stderr + p2.stderr + p3.stderr)[-300:]])
        std = parse_std(p1.stdout).get(f)
        if std is None:
            if p1.returncode == 1 and "Error" in (p1.stdout + p1.stderr) and "nexpected token" in (p1.stdout + p1.stderr):
                # VSG rejected the file (a syntax error fixture): there is nothing to compare, the rejection itself is C19's subject
                return (path, mode, [])
            return (path, mode, ["standard output has no block for the file"])
        jv = json.load(open(js))["files"][0]["violations"]
        rows = sorted((a, b, c) for a, b, c, s in std["rows"])
        jrows = sorted((v["rule"], v["severity"], int(v["linenumber"])) for v in jv)
        if rows != jrows:
            probs.append("standard output lists %d violations, JSON %d; e.g. %r" % (len(rows), len(jrows), ([x for x in rows if x not in jrows] + [x for x in jrows if x not in rows])[:2]))
        if std["total"] != len(std["rows"]):
            probs.append("'Total Violations: %s' but %d rows listed" % (std["total"], len(std["rows"])))
        for name, n in std["sev"].items():
            k = len([x for x in std["rows"] if x[1] == name])
            if k != n:
                probs.append("count printed for severity %s is %d, rows listed %d" % (name, n, k))
        nerr = len([v for v in jv if types.get(v["severity"]) == "error"])
        # exit status: 0 exactly when no error-type violation
        for pp, nm in ((p1, "standard"), (p2, "syntastic"), (p3, "summary")):
            if (pp.returncode != 0) != (nerr > 0):
                probs.append("%s run: exit status %d with %d error-type violations" % (nm, pp.returncode, nerr))
        syn = [l for l in p2.stdout.split("\n") if l.strip()]
        if len(syn) != len(jv):
            probs.append("syntastic output has %d lines, JSON %d violations" % (len(syn), len(jv)))
        summ = (p3.stdout + p3.stderr).strip()
        if (" ERROR " in summ) != (nerr > 0) or (" OK " in summ) != (nerr == 0):
            probs.append("summary says %r with %d error-type violations (exit %d)" % (summ[-80:], nerr, p3.returncode))
        for name in types:
            m = re.search(r"\[%s: (\d+)\]" % name, summ)
            if m and int(m.group(1)) != len([v for v in jv if v["severity"] == name]):
                probs.append("summary count for %s is %s, JSON has %d" % (name, m.group(1), len([v for v in jv if v["severity"] == name])))
        tree = ET.parse(ju)
        fails = [x.text or "" for x in tree.iter("failure")]
        jlines = [l for t in fails for l in t.split("\n") if l.strip()]
        if len(jlines) != nerr:
            probs.append("JUnit lists %d failures, %d error-type violations reported" % (len(jlines), nerr))
        q = json.load(open(qr))
        if len(q) != len(jv):
            probs.append("quality report has %d entries, JSON %d" % (len(q), len(jv)))
        else:
            crit = len([e for e in q if e["severity"] == "critical"])
            if crit != nerr:
                probs.append("quality report marks %d entries critical, %d error-type violations reported" % (crit, nerr))
        return (path, mode, probs)
    finally:
        shutil.rmtree(d, ignore_errors=True)


# ------------------------------------------------------------------------------------------------------ C15
POISON = """entity open_regions is
end entity open_regions;

architecture rtl of open_regions is
begin
end architecture rtl;
-- vsg_off
-- synthesis translate_off
--vhdl_comp_off
simulation only notes follow
/* a delimited comment that is never closed
"""


def state_fingerprint():
    """repr of every module-level and class-level mutable container of vsg.* (C15: a call of apply_rules must not
    leave anything behind that the next file can see)"""
    import sys

    out = {}
    for name, mod in sorted(sys.modules.items()):
        if not (name == "vsg" or name.startswith("vsg.")) or mod is None:
            continue
        for k, v in sorted(vars(mod).items()):
            if k.startswith("__"):
                continue
            if isinstance(v, (dict, list, set)):
                try:
                    out[name + "." + k] = repr(v)[:20000]
                except Exception:
                    pass
            elif isinstance(v, type) and getattr(v, "__module__", "") == name:
                for ck, cv in sorted(vars(v).items()):
                    if isinstance(cv, (dict, list, set)) and not ck.startswith("__"):
                        out[name + "." + k + "." + ck] = repr(cv)[:20000]
    return out


def c15_state_case(args):
    """in-process: apply_rules on a file with open regions, then on corpus files; shared state must be unchanged and
    each later result equal to the result in a fresh process state"""
    paths, seed = args
    import importlib

    from vsg import apply_rules, config

    vf = importlib.import_module("vsg.vhdlFile.vhdlFile")
    d = tempfile.mkdtemp(prefix="c15s_")
    probs = []
    try:
        pz = os.path.join(d, "open_regions.vhd")
        open(pz, "w").write(POISON)

        def run(p):
            cla = vf.command_line_args()
            cla.style = None
            cla.configuration = []
            cla.junit = None
            cla.json = "x"
            cla.quality_report = None
            cla.local_rules = None
            cla.fix = False
            cla.backup = False
            cla.all_phases = True
            cla.skip_phase = []
            cla.fix_phase = 7
            cla.output_format = "vsg"
            cla.fix_only = None
            oConfig = config.New(cla)
            r = apply_rules.apply_rules(cla, oConfig, (0, p))
            return (r[0], r[2], r[3], r[4])

        for p in paths:
            run(p)  # warm up: imports and lazily created state
        base = {p: run(p) for p in paths}
        fp0 = state_fingerprint()
        run(pz)
        fp1 = state_fingerprint()
        changed = [k for k in fp0 if fp1.get(k) != fp0[k]] + [k for k in fp1 if k not in fp0]
        if changed:
            probs.append("apply_rules left shared state behind: %s" % ", ".join(changed[:4]))
        for p in paths:
            if run(p) != base[p]:
                probs.append("result of %s differs after a file that ends inside open regions was processed in the same process" % os.path.basename(p))
        return (paths, probs)
    finally:
        shutil.rmtree(d, ignore_errors=True)


def c15_config_case(args):
    """in-process (what -p 1 does): two files of a globbed file_list entry that carries rule configuration, one of them with
    its own file_rules entry, processed with ONE configuration object; the configuration object must not change and the result
    of the second file must equal its result when it is processed first"""
    paths, seed = args
    import importlib

    from vsg import apply_rules, config

    vf = importlib.import_module("vsg.vhdlFile.vhdlFile")
    r = random.Random(seed)
    d = tempfile.mkdtemp(prefix="c15c_")
    cwd = os.getcwd()
    probs = []
    try:
        os.mkdir(os.path.join(d, "src"))
        names = ["src/alpha.vhd", "src/beta.vhd"]
        for n, p in zip(names, paths[:2]):
            shutil.copyfile(p, os.path.join(d, n))
        rules = ["entity_004", "entity_008", "architecture_010", "process_012", "signal_007", "port_010", "library_004", "case_002"]
        cfg = {
            "file_list": [{"src/*.vhd": {"rule": {r.choice(rules): {"disable": r.random() < 0.5}}}}],
            "file_rules": [{names[0]: {"rule": {x: {"disable": True} for x in r.sample(rules, 3)}}}],
        }
        json.dump(cfg, open(os.path.join(d, "c.json"), "w"))
        os.chdir(d)

        def fresh():
            cla = vf.command_line_args()
            cla.style = None
            cla.configuration = ["c.json"]
            cla.filename = []
            cla.junit = None
            cla.json = "x"
            cla.quality_report = None
            cla.local_rules = None
            cla.fix = False
            cla.backup = False
            cla.all_phases = True
            cla.fix_phase = 7
            cla.output_format = "vsg"
            cla.fix_only = None
            return cla, config.New(cla)

        def run(cla, oConfig, i, n):
            x = apply_rules.apply_rules(cla, oConfig, (i, n))
            return (x[0], x[2], x[3], x[4])

        cla, oConfig = fresh()
        before = repr(oConfig.dConfig)
        run(cla, oConfig, 0, names[0])
        if repr(oConfig.dConfig) != before:
            probs.append("apply_rules changed the shared configuration object while processing %s" % names[0])
        second = run(cla, oConfig, 1, names[1])
        cla2, oConfig2 = fresh()
        alone = run(cla2, oConfig2, 1, names[1])
        if second != alone:
            probs.append("the result of %s depends on whether %s was processed before it with the same configuration object (-p 1)" % (names[1], names[0]))
        return (paths, probs)
    except Exception as e:  # noqa
        return (paths, ["scenario raised %s: %s" % (type(e).__name__, e)])
    finally:
        os.chdir(cwd)
        shutil.rmtree(d, ignore_errors=True)


def c15_case(args):
    paths, seed = args
    r = random.Random(seed)
    d = tempfile.mkdtemp(prefix="c15_")
    probs = []
    try:
        names = []
        for i, p in enumerate(paths):
            n = "f%d.vhd" % i
            shutil.copyfile(p, os.path.join(d, n))
            names.append(n)
        open(os.path.join(d, "bad.vhd"), "w").write("entity e is\n  port (a : in std_logic\nend entity e;;\narchitecture\n")
        # a legal file that ends inside every kind of open region: nothing of it may leak into the next file
        open(os.path.join(d, "open_regions.vhd"), "w").write(POISON)
        alone = {}
        for n in names:
            js = os.path.join(d, "a.json")
            p = cli(["-f", n, "-ap", "--json", js], d)
            alone[n] = (parse_std(p.stdout).get(n), json.load(open(js))["files"][0]["violations"], p.returncode)
        order = list(names)
        r.shuffle(order)
        batch = ["open_regions.vhd"] + order[:1] + ["bad.vhd"] + order[1:]
        for jobs in (1, 4):
            js = os.path.join(d, "b%d.json" % jobs)
            p = cli(["-f"] + batch + ["-ap", "-p", str(jobs), "--json", js], d)
            if "Traceback" in p.stderr:
                probs.append("-p %d: traceback" % jobs)
                continue
            blocks = parse_std(p.stdout)
            seq = [m.group(1).strip() for m in re.finditer(r"^File:\s+(.*)$", p.stdout, re.M)]
            # (a sampled corpus file may itself be a syntax-error fixture: VSG rejects it alone as well, it has no block)
            rejected_alone = {n for n in names if alone[n][0] is None}
            if [x for x in seq if x != "open_regions.vhd"] != [b for b in batch if b not in ("bad.vhd", "open_regions.vhd") and b not in rejected_alone]:
                probs.append("-p %d: output order %r differs from command-line order %r" % (jobs, seq, batch))
            jf = {e["file_path"]: e["violations"] for e in json.load(open(js))["files"]}
            for n in names:
                if blocks.get(n) != alone[n][0]:
                    probs.append("-p %d: report of %s differs in a batch from the report alone" % (jobs, n))
                if jf.get(n) != alone[n][1]:
                    probs.append("-p %d: JSON entry of %s differs in a batch from alone" % (jobs, n))
            if p.returncode != 1:
                probs.append("-p %d: exit status %d although a file failed to parse" % (jobs, p.returncode))
        # stdin
        n = names[0]
        p = cli(["--stdin", "-ap"], d, stdin=open(os.path.join(d, n)).read())
        b = parse_std(p.stdout)
        got = list(b.values())[0] if b else None
        if got is None or got["rows"] != alone[n][0]["rows"]:
            probs.append("--stdin report of %s differs from the report by name" % n)
        # fixed text: alone vs in a batch with 4 jobs
        e1, e2 = os.path.join(d, "x1"), os.path.join(d, "x2")
        os.mkdir(e1)
        os.mkdir(e2)
        for n in names:
            shutil.copyfile(os.path.join(d, n), os.path.join(e1, n))
            shutil.copyfile(os.path.join(d, n), os.path.join(e2, n))
        for n in names:
            cli(["-f", n, "--fix"], e1)
        shutil.copyfile(os.path.join(d, "open_regions.vhd"), os.path.join(e2, "open_regions.vhd"))
        cli(["-f", "open_regions.vhd"] + order + ["--fix", "-p", "1"], e2)
        for n in names:
            if open(os.path.join(e1, n)).read() != open(os.path.join(e2, n)).read():
                probs.append("fixed text of %s differs between alone and in a batch after a file with open regions" % n)
        return (paths, probs)
    finally:
        shutil.rmtree(d, ignore_errors=True)


BASE_ATTRS = {"indent_style", "indent_size", "phase", "disable", "fixable", "severity", "user_error_message"}


def option_leak_jobs():
    """(rule id, option, a value that differs from the rule's default, fixture of the rule) for every option of every rule whose
    own fixture exists"""
    import contextlib
    import io

    from vsg import rule_list, vhdlFile

    with contextlib.redirect_stdout(io.StringIO()):
        rl = rule_list.rule_list(vhdlFile.vhdlFile([""]), None)
    out = []
    for o in rl.rules:
        fx = os.path.join(REPO, "tests", o.name, "rule_%s_test_input.vhd" % o.identifier)
        if o.deprecated or not os.path.exists(fx):
            continue
        for k in o.configuration:
            if k in BASE_ATTRS:
                continue
            cur = getattr(o, k, None)
            if isinstance(cur, list):
                v = ["zz_"] if k in ("prefixes", "suffixes") else [".*"]
            elif k == "case":
                v = "upper" if cur != "upper" else "lower"
            elif isinstance(cur, bool):
                v = not cur
            elif isinstance(cur, int):
                v = cur + 2
            elif cur in ("yes", "no"):
                v = "no" if cur == "yes" else "yes"
            elif k == "style" and isinstance(cur, str) and "blank_line" in cur:
                v = "no_blank_line" if cur != "no_blank_line" else "require_blank_line"
            elif k == "action" and cur in ("add", "remove"):
                v = "remove" if cur == "add" else "add"
            else:
                continue
            out.append((o.unique_id, k, v, fx))
    return out


def c15_option_leak_case(args):
    """in one process: the rule's own fixture is checked, then another file whose file_rules entry gives that rule a different
    option value, then the fixture again with the plain configuration: the two results of the fixture are equal (a per-file option
    of one file must not reach the next file through state the rule objects share)"""
    rid, attr, value, fixture = args
    import importlib

    from vsg import apply_rules, config

    vf = importlib.import_module("vsg.vhdlFile.vhdlFile")
    d = tempfile.mkdtemp(prefix="c15o_")
    cwd = os.getcwd()
    try:
        shutil.copyfile(fixture, os.path.join(d, "b.vhd"))
        shutil.copyfile(fixture, os.path.join(d, "a.vhd"))
        # the rule is switched on for both files (naming rules are off by default); only a.vhd gets the other option value
        json.dump({"rule": {rid: {"disable": False}}, "file_rules": [{"a.vhd": {"rule": {rid: {attr: value}}}}]}, open(os.path.join(d, "c.json"), "w"))
        os.chdir(d)
        cla = vf.command_line_args()
        cla.style = None
        cla.configuration = ["c.json"]
        cla.filename = []
        cla.junit = None
        cla.json = "x"
        cla.quality_report = None
        cla.local_rules = None
        cla.fix = False
        cla.backup = False
        cla.all_phases = True
        cla.fix_phase = 7
        cla.output_format = "vsg"
        cla.fix_only = None
        oConfig = config.New(cla)

        def run(i, n):
            x = apply_rules.apply_rules(cla, oConfig, (i, n))
            return (x[0], sorted((v["rule"], v["linenumber"], v["solution"]) for v in x[2].get("violations", [])))

        first = run(1, "b.vhd")
        other = run(0, "a.vhd")
        again = run(1, "b.vhd")
        if first != again:
            mine = lambda r_: [v for v in r_[1] if v[0] == rid]
            return (args, "after a file with the per-file option %s.%s = %r was checked, the rule's own fixture reports %d violations of %s instead of %d (%d instead of %d in all)" % (rid, attr, value, len(mine(again)), rid, len(mine(first)), len(again[1]), len(first[1])), other != first)
        return (args, None, other != first)
    except Exception:  # noqa: an option value the rule cannot digest is not this scenario's business (C19 runs the documented values)
        return (args, None, False)
    finally:
        os.chdir(cwd)
        shutil.rmtree(d, ignore_errors=True)


def option_leak_part(c, Finding, corpus):
    """shared by C06 and C15"""
    jobs = option_leak_jobs()
    if c.tier == "quick":
        r = random.Random(c.seed + 615)
        lists = [j for j in jobs if isinstance(j[2], list)]
        rest = [j for j in jobs if not isinstance(j[2], list)]
        jobs = r.sample(lists, min(len(lists), 120)) + r.sample(rest, min(len(rest), 120))
    res = corpus.pmap(c15_option_leak_case, jobs, chunksize=2)
    c.bounded["per_file_option_does_not_leak"] = {"evaluations": 3 * len(res), "distinct_nontrivial": sum(1 for x in res if x[2]), "rule": "in one process (what -p 1 and a busy worker do): a rule's own fixture, then a file whose file_rules entry gives that rule another option value (lists of exceptions / prefixes, case, widths, yes/no options, blank-line styles), then the fixture again under the plain configuration: both results of the fixture are equal; non-trivial = the option changed the result of the other file"}
    for args, why, _ in res:
        if why:
            c.findings.append(Finding("bounded", "option_leak", why, {"rule": args[0], "option": args[1], "value": args[2], "fixture": args[3], "observed": why, "how_to_rerun": "cd /verif && /venv/bin/python -c 'from bounded import cli; print(cli.c15_option_leak_case(%r))'" % (tuple(args),)}, "%s.%s" % (args[0], args[1])))
            break


def c15_filelist_case(args):
    """a file's own rule settings in file_list (and file_rules) follow the FILE, not its position: its result is the same
    whether the files come from the file_list alone or from -f in any order, with other files in front of it or not"""
    paths, seed = args
    r = random.Random(seed)
    d = tempfile.mkdtemp(prefix="c15f_")
    probs = []
    try:
        names = []
        for i, p in enumerate(paths[:3]):
            n = "f%d.vhd" % i
            shutil.copyfile(p, os.path.join(d, n))
            names.append(n)
        # a rule that reports something on each of the first and the last file, so that disabling it is visible
        picked = {}
        for n in (names[0], names[-1]):
            js = os.path.join(d, "probe.json")
            p0 = cli(["-f", n, "-ap", "--json", js], d)
            if "nexpected token" in p0.stdout + p0.stderr or not os.path.exists(js):
                return (paths, [])  # a syntax-error fixture among the sampled files: nothing to compare
            fl = json.load(open(js)).get("files", [])
            if not fl:
                return (paths, [])
            rules = sorted({v["rule"] for v in fl[0].get("violations", [])})
            picked[n] = r.choice(rules) if rules else "entity_004"
        cfg = {"file_list": [{names[0]: {"rule": {picked[names[0]]: {"disable": True}}}}] + names[1:-1] + [{names[-1]: {"rule": {picked[names[-1]]: {"disable": True}}}}]}
        json.dump(cfg, open(os.path.join(d, "cfg.json"), "w"))
        orders = [None, list(names), list(reversed(names)), [names[0]], [names[-1]], names[1:] + names[:1]]
        ref = {}
        for order in orders:
            js = os.path.join(d, "o.json")
            if os.path.exists(js):
                os.remove(js)
            p = cli((["-f"] + order if order else []) + ["-c", "cfg.json", "-ap", "-p", "1", "--json", js], d)
            if "Traceback" in p.stderr:
                probs.append("-f %s: traceback" % (order,))
                continue
            jf = {e["file_path"]: sorted((v["rule"], v["linenumber"]) for v in e["violations"]) for e in json.load(open(js))["files"]}
            for n in (names[0], names[-1]):
                if n not in jf:
                    continue
                if n in ref and ref[n][1] != jf[n]:
                    probs.append("the result of %s under its own file_list settings depends on the command line: %s vs %s (rule %s disabled for it: reported %s / %s times)" % (n, ref[n][0] or "file_list only", order or "file_list only", picked[n], sum(1 for x in ref[n][1] if x[0] == picked[n]), sum(1 for x in jf[n] if x[0] == picked[n])))
                ref.setdefault(n, (order, jf[n]))
                if any(x[0] == picked[n] for x in jf[n]):
                    probs.append("%s: rule %s is disabled for this file in file_list but reported (-f %s)" % (n, picked[n], order))
        return (paths, probs[:3])
    except Exception as e:  # noqa
        return (paths, ["scenario raised %s: %s" % (type(e).__name__, e)])
    finally:
        shutil.rmtree(d, ignore_errors=True)


# ------------------------------------------------------------------------------------------------------ C17
def _rule_states(style, cfgs):
    import importlib

    from vsg import config, rule_list, vhdlFile

    vf = importlib.import_module("vsg.vhdlFile.vhdlFile")
    cla = vf.command_line_args()
    cla.style = style
    cla.configuration = list(cfgs)
    cla.junit = None
    oConfig = config.New(cla)
    oFile = vhdlFile.vhdlFile([""], configuration=oConfig)
    oRules = rule_list.rule_list(oFile, oConfig.severity_list)
    oRules.configure(oConfig)
    out = {}
    for r in oRules.rules:
        st = {}
        for k, v in vars(r).items():
            if k in ("violations", "options", "severity"):
                continue
            if isinstance(v, (str, int, bool, float, type(None))):
                st[k] = v
            elif isinstance(v, (list, tuple)) and all(isinstance(x, (str, int, bool, float, type(None))) for x in v):
                st[k] = list(v)
        st["severity"] = (r.severity.name, r.severity.type)
        st["options"] = [(o.name, o.value) for o in getattr(r, "options", [])]
        out[r.unique_id] = st
    return out, dict(oConfig.dIndent) if isinstance(oConfig.dIndent, dict) else None


def effective_difference(style, cp, emitted):
    a, ia = _rule_states(style, [cp])
    b, ib = _rule_states(None, [emitted])
    for rid in sorted(a):
        if rid not in b:
            return "rule %s is missing under the emitted configuration" % rid
        if a[rid] != b[rid]:
            ks = [k for k in a[rid] if a[rid][k] != b[rid].get(k)][:3]
            return "rule %s is configured differently under the emitted configuration: %s" % (rid, ", ".join("%s=%r vs %r" % (k, a[rid][k], b[rid].get(k)) for k in ks))
    if ia != ib:
        return "the indent table differs under the emitted configuration"
    return None


def c17_files_case(args):
    """-oc of a run that names its files: the emitted configuration lists them (file_list) next to the per-file sections; fed back
    with -c alone it must analyse the same files with the same per-file settings.  The files are named the way tools name them:
    './x.vhd', 'sub/../x.vhd', 'sub//y.vhd'."""
    style, seed, sample = args
    r = random.Random(seed)
    d = tempfile.mkdtemp(prefix="c17f_")
    probs = []
    try:
        os.mkdir(os.path.join(d, "sub"))
        spellings = ["./s0.vhd", "sub/../s1.vhd", "sub//s2.vhd", "s3.vhd"]
        names = []
        for i, src in enumerate(sample[:4]):
            sp = spellings[i % len(spellings)]
            shutil.copyfile(src, os.path.join(d, os.path.normpath(sp)))
            names.append(sp)
        if not names:
            return ((style, seed), [])
        # a rule that reports on the first file is switched off for that file only
        js = os.path.join(d, "probe.json")
        p0 = cli((["--style", style] if style else []) + ["-f", names[0], "-ap", "--json", js], d)
        if "nexpected token" in p0.stdout + p0.stderr or not os.path.exists(js):
            return ((style, seed), [])
        fl = json.load(open(js)).get("files", [])
        rules = sorted({v["rule"] for v in fl[0].get("violations", [])}) if fl else []
        if not rules:
            return ((style, seed), [])
        rid = r.choice(rules)
        cfg = {"file_rules": [{names[0]: {"rule": {rid: {"disable": True}}}}]}
        cp = os.path.join(d, "c.json")
        json.dump(cfg, open(cp, "w"))
        sa = (["--style", style] if style else []) + ["-c", cp]
        o1 = os.path.join(d, "o1.json")
        p = cli(sa + ["-f"] + names + ["-oc", o1], d)
        if not os.path.exists(o1):
            return ((style, seed), ["-oc with files failed: rc=%d %s" % (p.returncode, (p.stdout + p.stderr)[-160:])])
        j1, j2 = os.path.join(d, "j1.json"), os.path.join(d, "j2.json")
        p1 = cli(sa + ["-f"] + names + ["-ap", "-p", "1", "--json", j1], d)
        p2 = cli(["-c", o1, "-ap", "-p", "1", "--json", j2], d)
        if "Traceback" in p2.stderr or not os.path.exists(j2):
            return ((style, seed), ["run under the emitted configuration (files from its file_list) crashes or writes no report: %s" % (p2.stderr.strip().split("\n")[-1][:120])])
        a = [sorted((v["rule"], v["linenumber"]) for v in x["violations"]) for x in json.load(open(j1))["files"]]
        b = [sorted((v["rule"], v["linenumber"]) for v in x["violations"]) for x in json.load(open(j2))["files"]]
        if a != b or p1.returncode != p2.returncode:
            na = sum(1 for x in (a[0] if a else []) if x[0] == rid)
            nb = sum(1 for x in (b[0] if b else []) if x[0] == rid)
            probs.append("files named %r with a file_rules entry for the first: violations differ under the emitted configuration (%s reported %d vs %d times for it; %d vs %d files; exit %d vs %d)" % (names, rid, na, nb, len(a), len(b), p1.returncode, p2.returncode))
        return ((style, seed), probs)
    except Exception as e:  # noqa
        return ((style, seed), ["scenario raised %s: %s" % (type(e).__name__, e)])
    finally:
        shutil.rmtree(d, ignore_errors=True)


def c17_case(args):
    style, seed, sample = args
    r = random.Random(seed)
    d = tempfile.mkdtemp(prefix="c17_")
    probs = []
    try:
        cfg = {"rule": {}}
        for k in range(r.randint(0, 3)):
            cfg["rule"][r.choice(["entity_004", "process_012", "signal_007", "architecture_010", "length_001", "port_010"])] = r.choice([{"disable": True}, {"fixable": False}, {"indent_size": 4}, {"phase": 3}, {"severity": "Warning"}])
        if r.random() < 0.5:
            cfg["rule"]["global"] = {"indent_size": r.choice([2, 3, 4])}
        if r.random() < 0.4:
            cfg["rule"]["group"] = {"case": {"case": r.choice(["upper", "lower"])}}
        user_sev = r.random() < 0.3
        if user_sev:
            cfg["severity"] = {"Guideline": {"type": "warning"}}
            cfg["rule"]["entity_008"] = {"severity": "Guideline"}
        # every top-level section of a configuration file is part of the effective configuration
        extras = []
        if r.random() < 0.4:
            cfg["indent"] = {"tokens": r.choice([{"architecture_body": {"begin_keyword": {"after": 2}}}, {"process_statement": {"process_keyword": {"after": "+2"}, "begin_keyword": {"token": "-2"}}}, {"entity_declaration": {"entity_keyword": {"after": 2}}, "architecture_body": {"architecture_keyword": {"after": 2}}}])}
            extras.append("indent")
        if r.random() < 0.25:
            cfg["skip_phase"] = r.choice([[6], [2, 3], [4], [5, 7]])
            extras.append("skip_phase")
        if r.random() < 0.2:
            cfg["linesep"] = r.choice(["\r\n", "\n"])
            extras.append("linesep")
        per_file = {"rule": {r.choice(["entity_004", "architecture_010", "process_012", "signal_007", "port_010"]): {"disable": True}, "whitespace_013": {"disable": True}, "entity_008": {"disable": True}}}
        use_fr = r.random() < 0.25
        use_fl = (not use_fr) and r.random() < 0.2
        if use_fr:
            cfg["file_rules"] = [{os.path.join(d, "s%d.vhd" % i): per_file} for i in range(len(sample))] + [{os.path.join(d, "g1.vhd"): per_file}, {os.path.join(d, "g2.vhd"): per_file}]
            extras.append("file_rules")
        if use_fl:
            cfg["file_list"] = [{os.path.join(d, "s0.vhd"): per_file}] + [os.path.join(d, "s%d.vhd" % i) for i in range(1, len(sample))]
            extras.append("file_list")
        for i, src in enumerate(sample):
            shutil.copyfile(src, os.path.join(d, "s%d.vhd" % i))
        cp = os.path.join(d, "c.json")
        json.dump(cfg, open(cp, "w"))
        sa = (["--style", style] if style else []) + ["-c", cp]
        o1, o2 = os.path.join(d, "o1.json"), os.path.join(d, "o2.json")
        p = cli(sa + ["-oc", o1], d)
        if p.returncode != 0 or not os.path.exists(o1):
            return ((style, seed), ["-oc failed: rc=%d %s" % (p.returncode, (p.stdout + p.stderr)[-200:])])
        p = cli(["-c", o1, "-oc", o2], d)
        if p.returncode != 0 or not os.path.exists(o2):
            probs.append("emitted configuration cannot be read back: rc=%d %s" % (p.returncode, (p.stdout + p.stderr).strip()[-160:]))
            return ((style, seed, user_sev), probs)
        # the effective configuration itself: every rule object configured from (style, stack) and from the emitted file must be
        # in the same state (all simple attributes: phase, SUB-phase, disable, fixable, options, severity, ...), not only in the
        # names the emitted file happens to carry
        try:
            diff = effective_difference(style, cp, o1)
        except Exception as e:  # noqa
            diff = "comparing the effective configurations raised %s: %s" % (type(e).__name__, e)
        if diff:
            probs.append(diff)
        a, b = json.load(open(o1)), json.load(open(o2))
        if a != b:
            ks = [k for k in a.get("rule", {}) if a["rule"][k] != b.get("rule", {}).get(k)][:2]
            probs.append("emitting the emitted configuration again gives a different file (e.g. rules %r)" % ks)
        for i, src in enumerate(sample):
            f = os.path.join(d, "s%d.vhd" % i)
            shutil.copyfile(src, f)
            j1, j2 = os.path.join(d, "j1.json"), os.path.join(d, "j2.json")
            fa = [] if use_fl else ["-f", f]
            if use_fl and i > 0:
                break
            p1 = cli(sa + fa + ["-ap", "--json", j1], d)
            p2 = cli(["-c", o1] + fa + ["-ap", "--json", j2], d)
            if "Traceback" in p2.stderr:
                probs.append("run under the emitted configuration crashes: %s" % p2.stderr.strip().split("\n")[-1][:120])
                continue
            v1 = [x["violations"] for x in json.load(open(j1))["files"]]
            v2 = [x["violations"] for x in json.load(open(j2))["files"]]
            if v1 != v2 or p1.returncode != p2.returncode:
                probs.append("violations of %s differ under the emitted configuration (%d vs %d, exit %d vs %d) [configuration sections: %s]" % (os.path.basename(src), sum(map(len, v1)), sum(map(len, v2)), p1.returncode, p2.returncode, ",".join(extras)))
            if use_fl:
                continue
            g1, g2 = os.path.join(d, "g1.vhd"), os.path.join(d, "g2.vhd")
            shutil.copyfile(src, g1)
            shutil.copyfile(src, g2)
            cli(sa + ["-f", g1, "--fix"], d)
            cli(["-c", o1, "-f", g2, "--fix"], d)
            if open(g1, newline="").read() != open(g2, newline="").read():
                probs.append("fixed text of %s differs under the emitted configuration [configuration sections: %s]" % (os.path.basename(src), ",".join(extras)))
        return ((style, seed, user_sev), probs)
    finally:
        shutil.rmtree(d, ignore_errors=True)
