# -*- coding: utf-8 -*-
"""Bounded stand-in for the contract of vhdlFile.update (contracts/vhdlfile.py), evaluated by CPython on the real
method with real token objects: random token lists, random ascending disjoint regions, replacements of random
length (including sets of replacements whose length changes cancel), both values of bUpdateMap.
    lAllObjects' == splice(lAllObjects, regions, replacements)   and   bUpdateMap => oTokenMap' == index(lAllObjects')"""
import random


def one(seed):
    import importlib

    from vsg import parser, token_map, violation
    from vsg.token import signal_declaration as sd
    from vsg.vhdlFile.extract import tokens as toi

    vf = importlib.import_module("vsg.vhdlFile.vhdlFile")
    r = random.Random(seed)
    classes = [lambda: parser.whitespace(" "), parser.carriage_return, lambda: parser.comment("-- c"), lambda: sd.identifier("x"), lambda: sd.colon(":"), lambda: sd.semicolon(";"), lambda: parser.blank_line(), lambda: sd.signal_keyword("signal")]

    def tok():
        return r.choice(classes)()

    n = r.randint(4, 40)
    L = [tok() for _ in range(n)]
    o = vf.vhdlFile([""])
    o.lAllObjects = list(L)
    o.oTokenMap = token_map.process_tokens(o.lAllObjects)
    old_map = o.oTokenMap
    # ascending disjoint regions
    k = r.randint(0, 4)
    cuts = sorted(r.sample(range(0, n + 1), min(2 * k, n + 1) // 2 * 2))
    regions = [(cuts[i], cuts[i + 1]) for i in range(0, len(cuts), 2)]
    ups = []
    expected = []
    pos = 0
    balance = r.random() < 0.5
    deltas = []
    for a, b in regions:
        region = L[a:b]
        mode = r.choice(["same", "grow", "shrink", "retype", "reuse"])
        if balance and deltas and sum(deltas) != 0:
            mode = "grow" if sum(deltas) < 0 else "shrink"
        if mode == "same":
            new = list(region)
        elif mode == "grow":
            new = list(region) + [tok() for _ in range(abs(sum(deltas)) if balance and deltas and sum(deltas) < 0 else r.randint(1, 3))]
        elif mode == "shrink":
            cut = abs(sum(deltas)) if balance and deltas and sum(deltas) > 0 else r.randint(1, 3)
            new = list(region)[: max(0, len(region) - cut)]
        elif mode == "retype":
            new = [tok() for _ in region]
        else:
            new = list(region)
            r.shuffle(new)
        deltas.append(len(new) - len(region))
        t = toi.New(a, 1, list(region))
        v = violation.New(1, t, "s")
        v.set_tokens(new)
        ups.append(v)
        expected.extend(L[pos:a])
        expected.extend(new)
        pos = b
    expected.extend(L[pos:])
    bMap = r.random() < 0.7
    o.update(ups, bMap)
    if [id(x) for x in o.lAllObjects] != [id(x) for x in expected]:
        return (seed, "token list after update() is not the splice of the %d regions %r" % (len(regions), regions))
    if ups and bMap and o.oTokenMap.dMap != token_map.process_tokens(o.lAllObjects).dMap:
        return (seed, "bUpdateMap is set but the token index is not the index of the new list (regions %r, length changes %r)" % (regions, deltas))
    if not bMap and o.oTokenMap is not old_map:
        return (seed, "bUpdateMap is false but the index object was replaced")
    return (seed, None)
