# -*- coding: utf-8 -*-
"""Bounded stand-in for the gating contracts of rule_list.fix / rule_list.check_rules (C13, C03, C20):
the SAME contract text (contracts/rule.py) is evaluated by CPython on the real rule_list object, built
by the real constructor and configured through the real configure() path with seeded configurations
(global / group / per-rule phase, disable, fixable, severity).  The abstract callees of the proofs
(Rule.analyze, Rule.fix, the vhdlFile normalisers) are replaced by stubs that implement exactly their
assumed contracts (ghost log + seeded violation counts)."""
import copy
import random

from pyvc import concrete


class FakeFile(object):
    filename = "fake.vhd"

    def __init__(self, g):
        self.g = g

    def set_token_indent(self):
        self.g["oplog"].append("indent")

    def fix_blank_lines(self):
        self.g["oplog"].append("blank")

    def fix_trailing_whitespace(self):
        self.g["oplog"].append("trail")

    def update_token_map(self):
        self.g["oplog"].append("map")


class FakeViolation(object):
    def __init__(self, line):
        self.iLine = line

    def get_line_number(self):
        return self.iLine


def one_scenario_fix_only(seed):
    """the same with a --fix_only dictionary: which rules are visited (analysed) does not depend on it"""
    return one_scenario(seed, True)


def one_scenario(seed, with_fix_only=False):
    """returns (ok, detail) for rule_list.fix and rule_list.check_rules on one seeded configuration"""
    import importlib.util
    import os

    from vsg import config, rule, rule_list, severity

    spec = importlib.util.spec_from_file_location("c_rule", os.path.join(os.path.dirname(os.path.dirname(os.path.abspath(__file__))), "contracts", "rule.py"))
    cm = importlib.util.module_from_spec(spec)
    spec.loader.exec_module(cm)
    r = random.Random(seed)
    g = {"oplog": [], "fixlog": [], "nerr": 0}
    vocab = concrete.hom_vocab(cm.HOMS)
    oFile = FakeFile(g)
    dSev = {"severity": {"Guideline": {"type": "warning"}, "Blocker": {"type": "error"}}}
    oSev = severity.create_list(dSev)
    oRules = rule_list.rule_list(oFile, oSev)
    groups = sorted({gr for o in oRules.rules for gr in o.groups})
    ids = [o.unique_id for o in oRules.rules if not o.deprecated]
    cfg = {"rule": {}}
    # which configuration levels re-assign the phase (each combination must occur: a cache keyed on one level goes stale through another)
    phase_levels = r.choice([[], ["global"], ["group"], ["group"], ["rule"], ["group", "rule"], ["global", "group"], ["global", "group", "rule"]])
    if r.random() < 0.5 or "global" in phase_levels:
        cfg["rule"]["global"] = {}
        if "global" in phase_levels:
            cfg["rule"]["global"]["phase"] = r.randint(1, 7)
        if r.random() < 0.3:
            cfg["rule"]["global"]["disable"] = r.random() < 0.5
        if r.random() < 0.3:
            cfg["rule"]["global"]["severity"] = r.choice(["Warning", "Guideline", "Blocker", "Error"])
    if (r.random() < 0.7 or "group" in phase_levels) and groups:
        cfg["rule"]["group"] = {}
        for gr in r.sample(groups, min(len(groups), r.randint(1, 3))):
            d = {}
            if "group" in phase_levels:
                d["phase"] = r.randint(1, 7)
            if r.random() < 0.4:
                d["disable"] = r.random() < 0.5
            if r.random() < 0.3:
                d["severity"] = r.choice(["Warning", "Guideline", "Blocker"])
            if r.random() < 0.3:
                d["fixable"] = False
            cfg["rule"]["group"][gr] = d
    for rid in r.sample(ids, r.randint(0, 25)):
        d = {}
        if "rule" in phase_levels and r.random() < 0.5:
            d["phase"] = r.randint(1, 7)
        if r.random() < 0.4:
            d["disable"] = r.random() < 0.5
        if r.random() < 0.3:
            d["fixable"] = r.random() < 0.5
        if r.random() < 0.3:
            d["severity"] = r.choice(["Warning", "Guideline", "Blocker", "Error"])
        if r.random() < 0.2:
            d["subphase"] = r.randint(0, 5)
        cfg["rule"][rid] = d
    # directed: the rules that name prerequisites keep their place (behind every rule without prerequisites) whatever happens
    # to the prerequisites themselves: disabled, moved to another phase or sub-phase
    if seed % 3 == 0:
        for o in oRules.rules:
            if o.prerequisites and not o.deprecated:
                cfg["rule"].setdefault(o.unique_id, {})["disable"] = False
                pre = [p.unique_id for p in o.prerequisites]
                for pid in r.sample(pre, r.randint(1, len(pre))):
                    d = cfg["rule"].setdefault(pid, {})
                    what = r.choice(["disable", "disable", "phase", "subphase"])
                    if what == "disable":
                        d["disable"] = True
                    elif what == "phase":
                        d["phase"] = r.randint(1, 7)
                    else:
                        d["subphase"] = r.randint(0, 5)
    oConfig = config.config()
    oConfig.dConfig = cfg
    oConfig.severity_list = oSev
    oRules.configure(oConfig)
    # sparse failures so that gating has something to decide
    fail_phase = r.choice([0, 0, 1, 2, 3, 4, 5, 6, 7])
    plan = {}
    for o in oRules.rules:
        k = 0
        if fail_phase and o.phase == fail_phase and r.random() < 0.05:
            k = r.randint(1, 3)
        elif r.random() < 0.003:
            k = 1
        plan[id(o)] = k

    def stub_analyze(self, oF):
        g["oplog"].append("A:" + self.unique_id)
        self.violations = [FakeViolation(i + 1) for i in range(plan.get(id(self), 0))]
        if self.severity.type == "error":
            g["nerr"] += len(self.violations)

    def stub_fix(self, oF, dFixOnly=None):
        if self.fixable:
            g["oplog"].extend(["A:" + self.unique_id, "U"])
            if plan.get(id(self), 0):
                self.had_violations = True
            self.violations = []

    saved = (rule.Rule.analyze, rule.Rule.fix)
    overridden = []
    for t in {type(o) for o in oRules.rules}:
        for c in t.__mro__:
            if c is not rule.Rule and c is not object and ("analyze" in c.__dict__ or "fix" in c.__dict__) and c not in overridden:
                overridden.append(c)
    saved_over = [(c, c.__dict__.get("analyze"), c.__dict__.get("fix")) for c in overridden]
    try:
        rule.Rule.analyze = stub_analyze
        rule.Rule.fix = stub_fix
        for c in overridden:
            if "analyze" in c.__dict__:
                c.analyze = stub_analyze
            if "fix" in c.__dict__:
                c.fix = stub_fix
        skip = r.choice([None, None, [], [r.randint(1, 7)], [1], [r.randint(1, 7), r.randint(1, 7)]])
        out = []
        # ---- rule_list.fix
        n = r.randint(1, 7)
        ct = cm.CONTRACTS["vsg.rule_list.rule_list.fix"]
        before = list(g["oplog"])
        dfo = None
        if with_fix_only or seed % 5 == 2:
            # a selection file: some rules with 'all' or line lists, or a dictionary that lacks the keys
            sel = {rid: r.choice([["all"], [1, 2], []]) for rid in r.sample(ids, r.randint(0, 6))}
            dfo = r.choice([{"fix": {"rule": sel}}, {"fix": {"rule": sel}}, {"fix": {}}, {}])
        passed = copy.copy(skip)  # one list object for fix and for the check that follows, as apply_rules does
        oRules.fix(n, passed, dfo)
        if passed != skip:
            out.append(("fix", "fix_phase=%d: rule_list.fix changed the skip list it was given: %r -> %r (the caller uses it again for the report)" % (n, skip, passed)))
        sk = skip if skip is not None else []
        exp = before + vocab["fix_phases"](list(range(1, n + 1)), oRules.rules, sk)
        if g["oplog"] != exp:
            out.append(("fix", "fix_phase=%d skip=%r%s: operations %s, contract says %s" % (n, skip, "" if dfo is None else " fix_only=%r" % (dfo,), _diff(g["oplog"][len(before) :], exp[len(before) :]), "fix_phases(irange(1,%d+1), rules, skip)" % n)))
        # ---- rule_list.check_rules
        for o in oRules.rules:
            o.violations = []
        g["oplog"][:] = []
        g["nerr"] = 0
        bAll = r.random() < 0.5
        oRules.check_rules(bAllPhases=bAll, lSkipPhase=copy.copy(skip))
        okK = None
        for K in range(1, 8):
            if g["oplog"] == vocab["check_phases"](list(range(1, K + 1)), oRules.rules, sk):
                okK = K
                if bAll and K != 7:
                    continue
                break
        if okK is None:
            out.append(("check", "all_phases=%s skip=%r: analysed rules are not check_phases(irange(1,K+1)) for any K" % (bAll, skip)))
        else:
            if bAll and g["oplog"] != vocab["check_phases"](list(range(1, 8)), oRules.rules, sk):
                out.append(("check", "all_phases but not all phases analysed"))
            if bool(oRules.violations) != (g["nerr"] > 0):
                out.append(("check", "violations flag %r but error-severity violations produced = %d" % (oRules.violations, g["nerr"])))
            if not bAll and g["nerr"] > 0:
                # first failing phase: phases before the last analysed one produced no error-severity violation
                first = min(o.phase for o in oRules.rules if plan.get(id(o), 0) and o.severity.type == "error" and not o.disable and o.phase not in sk and 1 <= o.phase <= 7 and 0 <= o.subphase <= 5)
                exp = vocab["check_phases"](list(range(1, first + 1)), oRules.rules, sk)
                if g["oplog"] != exp:
                    out.append(("check", "gated run does not stop after the first failing phase %d" % first))
            if oRules.iNumberRulesRan != len(g["oplog"]):
                out.append(("check", "iNumberRulesRan=%d but %d rules analysed" % (oRules.iNumberRulesRan, len(g["oplog"]))))
        return (seed, out, {"cfg_keys": sorted(cfg["rule"])[:6], "skip": skip, "fix_phase": n, "all_phases": bAll, "events": len(g["oplog"])})
    finally:
        rule.Rule.analyze, rule.Rule.fix = saved
        for c, a, f in saved_over:
            if a is not None:
                c.analyze = a
            if f is not None:
                c.fix = f


def _diff(a, b):
    for i, (x, y) in enumerate(zip(a, b)):
        if x != y:
            return "differ at event %d: got %r, expected %r" % (i, x, y)
    return "lengths %d vs %d (first extra: %r)" % (len(a), len(b), (a[len(b) :] or b[len(a) :])[:1])
