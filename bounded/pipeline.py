# -*- coding: utf-8 -*-
"""Bounded layer for the fix pipeline: runtime evaluation of the effect contracts of DESIGN 3.0 at the choke
points of the REAL code (Rule.analyze, Rule.fix, vhdlFile.update, rule_list.fix) while VSG fixes corpus files.

One instrumented fix run yields the observations for C01, C02, C03, C07, C08, C09, C10, C18, C19.  Nothing in /repo
is edited: the wrappers are installed by monkey-patching inside the check's own worker process.
"""
import difflib  # noqa: F401
import importlib
import os
import signal
import time
import traceback

from bounded.configs import CONFIGS, SKIPS  # noqa: E402

END_KEYWORDS = set("is entity architecture process function procedure package body component case if loop generate block record units protected context configuration for postponed end".split())


def kinds():
    from vsg import parser
    from vsg.token import delimited_comment, pragma

    class token(object):
        pass

    token.delimited_comment = delimited_comment
    token.pragma = pragma
    return {
        "ws": parser.whitespace,
        "cr": parser.carriage_return,
        "bl": parser.blank_line,
        "cmt": (parser.comment, token.delimited_comment.text, token.pragma.ignore),
        "pre": parser.preprocessor,
        "bof": parser.beginning_of_file,
    }


_KIND_CACHE = {}


def kind_of(t, K):
    ty = type(t)
    k = _KIND_CACHE.get(ty)
    if k is None:
        k = _KIND_CACHE[ty] = _kind_of(t, K)
    return k


def _kind_of(t, K):
    if isinstance(t, K["ws"]):
        return "ws"
    if isinstance(t, K["cr"]):
        return "cr"
    if isinstance(t, K["bl"]):
        return "bl"
    if isinstance(t, K["cmt"]):
        return "cmt"
    if isinstance(t, K["pre"]):
        return "pre"
    if isinstance(t, K["bof"]):
        return "bof"
    return "code"


def norm(v):
    return v if v[:1] in ("'", '"', "\\") else v.lower()


def snapshot(oFile, K):
    toks = oFile.lAllObjects
    return [(kind_of(t, K), t.get_value(), id(t), type(t)) for t in toks]


def cheap(oFile):
    toks = oFile.lAllObjects
    return list(toks), [t.value for t in toks]


def full(cheap_snap, K):
    objs, vals = cheap_snap
    return [(kind_of(t, K), v, id(t), type(t)) for t, v in zip(objs, vals)]


def lines_of(snap):
    out, cur = [], []
    for k, v, _, _ in snap:
        if k == "cr":
            out.append("".join(cur))
            cur = []
        else:
            cur.append(v)
    if cur:
        out.append("".join(cur))
    return out


def code_seq(snap):
    return [v for k, v, _, _ in snap if k == "code"]


def comment_seq(snap):
    return [v for k, v, _, _ in snap if k in ("cmt", "pre")]


class Timeout(Exception):
    pass


def _alarm(signum, frame):
    raise Timeout()


def load(path, cfgname):
    """returns (oFile, oRules, oConfig) or None if VSG rejects the file"""
    from vsg import config, rule_list, severity, vhdlFile
    from vsg.exceptions import ClassifyError

    vf = importlib.import_module("vsg.vhdlFile.vhdlFile")
    lines = vf.utils.read_vhdlfile(path)[0]
    cla = vf.command_line_args()
    cla.style = None
    if cfgname.startswith("doc:"):
        from bounded import docconfigs

        import copy

        cfg = copy.deepcopy(docconfigs.harvest(os.environ.get("VSG_REPO", "/repo"))[cfgname])
    else:
        cfg = CONFIGS[cfgname]
    if isinstance(cfg, str):
        cla.style = cfg
        cfg = {}
    oConfig = config.New(cla)
    if cfg:
        for k, v in cfg.items():
            if k == "rule":
                oConfig.dConfig.setdefault("rule", {})
                for kk, vv in v.items():
                    if isinstance(vv, dict) and isinstance(oConfig.dConfig["rule"].get(kk), dict):
                        oConfig.dConfig["rule"][kk].update(vv)
                    else:
                        oConfig.dConfig["rule"][kk] = vv
            else:
                oConfig.dConfig[k] = v
        if "severity" in cfg:
            oConfig.severity_list = severity.create_list(oConfig.dConfig)
        if "indent" in cfg:
            oConfig.dIndent = config.read_indent_configuration(oConfig.dConfig)
    try:
        oFile = vhdlFile.vhdlFile(lines, sFilename=path, configuration=oConfig)
    except ClassifyError:
        return None
    oFile.set_indent_map(oConfig.dIndent)
    oRules = rule_list.rule_list(oFile, oConfig.severity_list)
    oRules.configure(oConfig)
    return oFile, oRules, oConfig, lines


import re

_OPT = re.compile(
    r"^(.*\.is_keyword|.*\.end_\w*keyword|subprogram_kind\.(function|procedure)_keyword|.*simple_name|subprogram_body\.designator|.*\.end_\w*label"
    r"|instantiated_unit\.component_keyword|.*\.(label|label_name|case_label|label_colon|postponed_keyword)|parser\.(open|close)_parenthesis)$"
)


def clsname(ty):
    return ty.__module__.replace("vsg.token.", "").replace("vsg.", "") + "." + ty.__name__


def is_literal(v, ty):
    if ty.__name__ == "bit_value_string":
        return False
    return v[:1] in ("'", '"', "\\")


def code_items(snap):
    return [(v, ty) for k, v, _, ty in snap if k == "code"]


def check_code_equiv(before, after, rule, strict):
    """C01 for one rule application.
    exact: code token values identical (phases 2-5, 7).  case: identical up to letter case, literals identical (phase 6).
    allow (phase 1): after removing the documented optional elements (optional 'is', keyword / name after 'end',
    'component' keyword, labels, generic parentheses) the code token sequences are equal up to case; a declaration
    split may duplicate tokens of its own declaration; inserted names must already exist; literals are never touched."""
    a, b = code_items(before), code_items(after)
    va, vb = [x[0] for x in a], [x[0] for x in b]
    if strict == "exact":
        if va != vb:
            return _first_diff("code tokens changed", va, vb)
        return None
    la = sorted(v for v, ty in a if is_literal(v, ty))
    lb = sorted(v for v, ty in b if is_literal(v, ty))
    if strict == "case":
        if [x.lower() for x in va] != [x.lower() for x in vb]:
            return _first_diff("code tokens changed beyond letter case", va, vb)
        for (x, tx), y in zip(a, vb):
            if x != y and is_literal(x, tx):
                return "literal changed: %r -> %r" % (x, y)
        return None
    if va == vb:
        return None
    split_rule = any("separate_multiple" in c.__module__ for c in rule.__class__.__mro__) or rule.unique_id in SPLIT_RULES
    if not split_rule and la != lb:
        return "literals changed: %r -> %r" % ([x for x in la if x not in lb][:3], [x for x in lb if x not in la][:3])
    ka = [norm(v) for v, ty in a if not _OPT.match(clsname(ty))]
    kb = [norm(v) for v, ty in b if not _OPT.match(clsname(ty))]
    if ka != kb:
        if split_rule:
            import collections

            ca, cb = collections.Counter(ka), collections.Counter(kb)
            lost = [x for x in (ca - cb) if x != ","]
            new = [x for x in (cb - ca) if x not in ca]
            if lost or new:
                return "declaration split by %s lost %r / invented %r" % (rule.unique_id, lost[:3], new[:3])
            ids_a = [x for x in ka if x.replace("_", "").isalnum()]
            ids_b = [x for x in kb if x.replace("_", "").isalnum()]
            it = iter(ids_b)
            if not all(any(x == y for y in it) for x in ids_a):
                return "declaration split by %s reordered identifiers" % rule.unique_id
            return None
        return _first_diff("code tokens (documented optional elements set aside) changed by %s" % rule.unique_id, ka, kb)
    present = set(norm(v) for v in va)
    import collections

    oa = collections.Counter((norm(v), clsname(ty)) for v, ty in a if _OPT.match(clsname(ty)))
    ob = collections.Counter((norm(v), clsname(ty)) for v, ty in b if _OPT.match(clsname(ty)))
    for (v, cn), n in (ob - oa).items():
        if v in END_KEYWORDS or v in ("(", ")", ":", "component", "function", "procedure"):
            continue
        if v in present:
            continue
        return "name %r (%s) invented by %s" % (v, cn, rule.unique_id)
    return None


SPLIT_RULES = {"port_026", "generic_021", "constant_017", "variable_017", "signal_015", "file_003"}


def _first_diff(msg, a, b):
    for i, (x, y) in enumerate(zip(a, b)):
        if x != y:
            return "%s: token %d %r -> %r (context %r)" % (msg, i, x, y, " ".join(b[max(0, i - 3) : i + 3]))
    return "%s: length %d -> %d (tail %r / %r)" % (msg, len(a), len(b), a[len(b) :][:3], b[len(a) :][:3])


def check_comments(before, after, rule):
    a, b = comment_seq(before), comment_seq(after)
    if a == b:
        return None
    mod = rule.__class__.__module__
    bases = " ".join(c.__module__ for c in rule.__class__.__mro__)
    if mod.startswith("vsg.rules.comment.") or mod.startswith("vsg.rules.block_comment.") or mod == "vsg.rules.whitespace.rule_002":
        # documented normalisations: spacing after the comment dashes (comment rules), tab replacement (whitespace_002):
        # nothing but white space inside the comment may change
        if len(a) == len(b) and all("".join(x.split()) == "".join(y.split()) for x, y in zip(a, b)):
            return None
    if "remove_comments_from_end_of_lines" in bases or "multiline_structure" in bases or "multiline_simple_structure" in bases or "multiline_array" in bases:
        # documented removers: may drop comments, must not alter or reorder the rest
        it = iter(a)
        if all(any(x == y for x in it) for y in b):
            return None
    return _first_diff("comments / pragmas / preprocessor lines changed by %s" % rule.unique_id, a, b)


def comment_wellformed(snap):
    """a '--' comment is followed by a line break (it never absorbs code)"""
    for i, (k, v, _, ty) in enumerate(snap[:-1]):
        if k == "cmt" and v.startswith("--") and snap[i + 1][0] != "cr":
            return "comment %r is followed by %r on the same line" % (v[:30], snap[i + 1][1][:20])
    return None


def comment_absorbs_code(snap):
    """a code token that follows a '--' comment on the same line: in the written text it is part of the comment, so the file no
    longer has the code tokens of the model (C01)"""
    in_cmt = None
    for k, v, _, ty in snap:
        if k == "cr":
            in_cmt = None
        elif k == "cmt" and v.startswith("--"):
            in_cmt = v
        elif k == "code" and in_cmt is not None:
            return "the code token %r follows the comment %r on its line: written out, it is comment text" % (v[:20], in_cmt[:30])
    return None


def check_phase_class(before, after, rule):
    """C03: effect class by phase"""
    ph = rule.phase
    structural = any(g.startswith("structure") for g in getattr(rule, "groups", []))
    if ph in (2, 3, 4, 5) and not structural:
        a = "".join("".join(v.split()) for k, v, _, _ in before if k != "cr")
        b = "".join("".join(v.split()) for k, v, _, _ in after if k != "cr")
        if a != b:
            i = next((i for i, (x, y) in enumerate(zip(a, b)) if x != y), min(len(a), len(b)))
            return "phase %d rule %s changed non-whitespace text: ...%r -> ...%r" % (ph, rule.unique_id, a[max(0, i - 15) : i + 15], b[max(0, i - 15) : i + 15])
        if ph in (2, 4, 5) and not structural:
            na, nb = sum(1 for s in before if s[0] == "cr"), sum(1 for s in after if s[0] == "cr")
            if na != nb:
                return "phase %d rule %s changed the number of lines %d -> %d" % (ph, rule.unique_id, na, nb)
    elif ph == 6:
        if len(before) != len(after):
            return "phase 6 rule %s changed the number of tokens" % rule.unique_id
        for (k1, v1, _, t1), (k2, v2, _, _) in zip(before, after):
            if v1 != v2 and is_literal(v1, t1):
                return "phase 6 rule %s changed the literal %r -> %r" % (rule.unique_id, v1, v2)
            if v1 != v2:
                if k1 != "code" or len(v1) != len(v2) or v1.lower() != v2.lower():
                    return "phase 6 rule %s changed %r -> %r" % (rule.unique_id, v1, v2)
                if is_literal(v1, before[0][3].__class__) and False:
                    pass
    elif ph == 7:
        if [(k, v) for k, v, _, _ in before] != [(k, v) for k, v, _, _ in after]:
            return "phase 7 rule %s changed the file" % rule.unique_id
    return None


def report_only_style(rule):
    """case styles that VSG documents as report-only (the fix is the identity)"""
    return getattr(rule, "case", None) not in (None, "lower", "upper")


def fix_run(args):
    """one instrumented fix run.  returns dict(property -> list of (rule id or '', message)) and stats"""
    path, cfgname, opts = args
    from vsg import rule, severity
    from vsg.token_map import process_tokens

    K = kinds()
    probs = {p: [] for p in ("C01", "C02", "C03", "C07", "C08", "C09", "C10", "C18", "C19", "C06")}
    stats = {"file": os.path.relpath(path, os.environ.get("VSG_REPO", "/repo")), "config": cfgname, "rule_fixes": 0, "rule_fixes_changed": 0, "analyzes": 0, "accepted": False}
    t0 = time.time()
    try:
        ld = load(path, cfgname)
    except Exception as e:  # noqa
        probs["C19"].append(("", "exception while loading/configuring: %r" % (e,)))
        return probs, stats
    if ld is None:
        return probs, stats
    oFile, oRules, oConfig, lines = ld
    stats["accepted"] = True
    first_snap = snapshot(oFile, K)
    # C02, against an oracle that is not VSG's classifier: the comments of the parsed model are the comments of the text
    from bounded import commentlex

    m = commentlex.compare(lines, oFile.lAllObjects)
    if m:
        probs["C02"].append(("", "parsing changed a comment: " + m))
    orig_fix, orig_analyze = rule.Rule.fix, rule.Rule.analyze
    state = {"updates": None, "depth": 0}
    real_update = oFile.update

    def my_update(lUpdates, bRemap):
        if state["depth"] == 1:
            state["updates"] = list(lUpdates)
            state["regions"] = [(v.oTokens.iStartIndex, v.oTokens.iEndIndex) for v in lUpdates if v.oTokens.iStartIndex is not None and v.oTokens.iEndIndex is not None]
            state["toks_before_update"] = list(oFile.lAllObjects)  # references keep the objects alive (no id reuse)
        return real_update(lUpdates, bRemap)

    oFile.update = my_update
    for nm in ("fix_blank_lines", "fix_trailing_whitespace", "set_token_indent", "update_token_map"):

        def mk_norm(nm=nm, real=getattr(oFile, nm)):
            def w(*a, **k):
                b4 = snapshot(oFile, K)
                r = real(*a, **k)
                af = snapshot(oFile, K)
                if code_seq(b4) != code_seq(af):
                    probs["C01"].append(("", _first_diff("vhdlFile.%s changed code tokens" % nm, code_seq(b4), code_seq(af))))
                if comment_seq(b4) != comment_seq(af):
                    probs["C02"].append(("", _first_diff("vhdlFile.%s changed comments" % nm, comment_seq(b4), comment_seq(af))))
                if comment_wellformed(b4) is None and comment_wellformed(af):
                    probs["C02"].append(("", "vhdlFile.%s: %s" % (nm, comment_wellformed(af))))
                return r

            return w

        setattr(oFile, nm, mk_norm())

    def my_analyze(self, oF):
        if state["depth"] <= 1 and opts.get("c18", True):
            stats["analyzes"] += 1
            ref = process_tokens(oF.lAllObjects)
            if ref.dMap != oF.oTokenMap.dMap:
                bad = [(b, s) for b in ref.dMap for s in ref.dMap[b] if oF.oTokenMap.dMap.get(b, {}).get(s) != ref.dMap[b][s]][:1]
                bad += [(b, s) for b in oF.oTokenMap.dMap for s in oF.oTokenMap.dMap[b] if ref.dMap.get(b, {}).get(s) != oF.oTokenMap.dMap[b][s]][:1]
                probs["C18"].append((self.unique_id, "token index differs from the token list before analysis (e.g. %r)" % (bad[:1],)))
            # what the stubs of token_map.New assume on top of that (contracts/extract.py, ASC): every position list is strictly ascending
            for b, d in oF.oTokenMap.dMap.items():
                for s_, l in d.items():
                    if any(l[i] >= l[i + 1] for i in range(len(l) - 1)):
                        probs["C18"].append((self.unique_id, "token index lists positions out of order for %s.%s" % (b, s_)))
        return orig_analyze(self, oF)

    def my_fix(self, oF, dFixOnly=None):
        if state["depth"] > 0:
            return orig_fix(self, oF, dFixOnly)
        state["depth"] = 1
        state["rule"] = self
        state["updates"] = None
        before_c = cheap(oF)
        try:
            orig_fix(self, oF, dFixOnly)
        finally:
            state["depth"] = 0
        stats["rule_fixes"] += 1
        after_c = cheap(oF)
        if after_c[1] == before_c[1] and len(after_c[0]) == len(before_c[0]) and all(x is y for x, y in zip(after_c[0], before_c[0])) and not state["updates"]:
            return
        before = full(before_c, K)
        after = full(after_c, K)
        if state.get("regions") is not None and state["updates"] is not None:
            # C18: a fix overwrites the tokens that were analysed and no others
            toks0 = state["toks_before_update"]
            mark = [0] * (len(toks0) + 1)
            for s0, e0 in state["regions"]:
                s1, e1 = max(0, min(len(toks0), s0)), max(0, min(len(toks0), e0))
                if e1 > s1:
                    mark[s1] += 1
                    mark[e1] -= 1
            outside, depth = [], 0
            for i, t in enumerate(toks0):
                depth += mark[i]
                if depth == 0:
                    outside.append(id(t))
            it = iter(x[2] for x in after)
            missing = sum(1 for o in outside if not any(o == y for y in it))
            if missing:
                probs["C18"].append((self.unique_id, "update() overwrote tokens outside the regions that were analysed (%d of %d outside tokens lost or moved)" % (missing, len(outside))))
            state["regions"] = None
            state["toks_before_update"] = None
        changed = [(k, v) for k, v, _, _ in before] != [(k, v) for k, v, _, _ in after]
        rid = self.unique_id
        ups = state["updates"] or []
        if changed:
            stats["rule_fixes_changed"] += 1
            strict = "exact" if self.phase in (2, 3, 4, 5, 7) else "case" if self.phase == 6 else "allow"
            m = check_code_equiv(before, after, self, strict)
            if m:
                probs["C01"].append((rid, m))
            m = check_comments(before, after, self)
            if m:
                probs["C02"].append((rid, m))
            m = None if comment_wellformed(before) else comment_wellformed(after)
            if m:
                probs["C02"].append((rid, m))
            m = None if comment_absorbs_code(before) else comment_absorbs_code(after)
            if m:
                probs["C01"].append((rid, m))
            m = check_phase_class(before, after, self)
            if m:
                probs["C03"].append((rid, m))
            if not self.fixable or self.disable or self.severity.type != severity.error_type:
                probs["C03"].append((rid, "rule with fixable=%s disable=%s severity=%s changed the file" % (self.fixable, self.disable, self.severity.name)))
            if self.phase in (2, 4, 5, 6) and not any(g.startswith("structure") for g in self.groups):
                la, lb = lines_of(before), lines_of(after)
                if len(la) != len(lb):
                    probs["C07"].append((rid, "line count changed %d -> %d" % (len(la), len(lb))))
                else:
                    ch = {i + 1 for i, (x, y) in enumerate(zip(la, lb)) if x != y}
                    rep = {v.get_line_number() for v in ups}
                    if not ch <= rep:
                        probs["C07"].append((rid, "changed lines %s were not reported (reported %s)" % (sorted(ch - rep)[:5], sorted(rep)[:8])))
                    elif not rep <= ch and not report_only_style(self):
                        probs["C07"].append((rid, "reported lines %s were not changed by the fix (changed %s)" % (sorted(rep - ch)[:5], sorted(ch)[:8])))
                    if rep and (min(rep) < 1 or max(rep) > len(la)):
                        probs["C07"].append((rid, "reported line %s outside the file (1..%d)" % (sorted(rep)[:3], len(la))))
            # C18: a fix overwrites the tokens that were analysed and no others: everything outside the regions keeps its identity
        if opts.get("c10", True) and (changed or ups):
            # C10: immediately re-running the rule changes nothing
            state["depth"] = 2
            try:
                orig_fix(self, oF, dFixOnly)
            except Exception as e:  # noqa
                probs["C19"].append((rid, "second fix raised %r" % (e,)))
            finally:
                state["depth"] = 0
            again = snapshot(oF, K)
            if [(k, v) for k, v, _, _ in again] != [(k, v) for k, v, _, _ in after]:
                la, lb = lines_of(after), lines_of(again)
                d = [(i + 1, x, y) for i, (x, y) in enumerate(zip(la, lb)) if x != y][:1]
                probs["C10"].append((rid, "a second fix by the same rule changed the file again: %r" % (d or [(len(la), len(lb))],)))

    rule.Rule.fix = my_fix
    rule.Rule.analyze = my_analyze
    overridden = []
    for t in {type(o) for o in oRules.rules}:
        for c in t.__mro__:
            if c is not rule.Rule and c is not object and ("analyze" in c.__dict__ or "fix" in c.__dict__) and c not in overridden:
                overridden.append(c)
    saved_over = [(c, c.__dict__.get("analyze"), c.__dict__.get("fix")) for c in overridden]
    for c, a, f in saved_over:
        if a is not None:
            def wrap_a(self, oF, _a=a):
                return _a(self, oF)

            # keep subclass analyze but still check the index first
            def mk(_a):
                def w(self, oF):
                    if state["depth"] <= 1 and opts.get("c18", True):
                        ref = process_tokens(oF.lAllObjects)
                        if ref.dMap != oF.oTokenMap.dMap:
                            probs["C18"].append((self.unique_id, "token index differs from the token list before analysis"))
                    return _a(self, oF)

                return w

            c.analyze = mk(a)
    # C18: every region of interest handed to a rule is the slice of the token list at its recorded start
    toi_classes = []
    for t in {type(o) for o in oRules.rules}:
        for c in t.__mro__:
            if "_get_tokens_of_interest" in c.__dict__ and c not in [x[0] for x in toi_classes]:
                toi_classes.append((c, c.__dict__["_get_tokens_of_interest"]))

    def mk_toi(_g):
        def w(self, oF):
            lToi = _g(self, oF)
            if state["depth"] <= 1 and opts.get("c18", True) and isinstance(lToi, list):
                L = oF.lAllObjects
                for oToi in lToi[:2000]:
                    s0 = getattr(oToi, "iStartIndex", None)
                    toks = getattr(oToi, "lTokens", None)
                    if s0 is None or not isinstance(toks, list) or not isinstance(s0, int):
                        continue
                    stats["regions"] = stats.get("regions", 0) + 1
                    if s0 < 0 or s0 + len(toks) > len(L) or any(L[s0 + i] is not toks[i] for i in (0, len(toks) // 2, len(toks) - 1) if toks):
                        if toks and isinstance(toks[0], K["bof"]):
                            continue
                        probs["C18"].append((self.unique_id, "region of interest (start %d, %d tokens) is not the slice of the token list at its recorded start" % (s0, len(toks))))
                        break
            return lToi

        return w

    for c, g in toi_classes:
        c._get_tokens_of_interest = mk_toi(g)
    signal.signal(signal.SIGALRM, _alarm)
    signal.alarm(opts.get("timeout", 300))
    # the sidecar contracts of the fix bases are evaluated at every real _fix_violation call of this run
    from bounded import monitor

    mon = {}
    stats["contracts"] = mon
    undo_monitor = monitor.install(mon) if opts.get("monitor", True) else (lambda: None)
    try:
        try:
            oRules.fix(7, list(SKIPS.get(cfgname, [])), None)
        except Timeout:
            probs["C19"].append((getattr(state.get("rule"), "unique_id", ""), "fix run did not finish within %d s" % opts.get("timeout", 300)))
            return probs, stats
        except Exception as e:  # noqa
            tb = traceback.extract_tb(e.__traceback__)[-1]
            probs["C19"].append((getattr(state.get("rule"), "unique_id", ""), "unhandled %s: %s at %s:%d" % (type(e).__name__, e, os.path.basename(tb.filename), tb.lineno)))
            return probs, stats
        finally:
            signal.alarm(0)
            undo_monitor()
            rule.Rule.fix, rule.Rule.analyze = orig_fix, orig_analyze
            for c, a, f in saved_over:
                if a is not None:
                    c.analyze = a
            for c, g in toi_classes:
                c._get_tokens_of_interest = g
        final = snapshot(oFile, K)
        # whole-run C01 / C02
        out_lines = oFile.get_lines()[1:]
        stats["changed"] = out_lines != lines
        if os.path.basename(path).startswith("gen_"):
            stats["final_lines"] = out_lines
        stats["seconds"] = round(time.time() - t0, 2)
        try:
            if opts.get("c08", True) and out_lines:
                _check_reparse(oFile, oRules, oConfig, out_lines, path, cfgname, probs, K)
            if opts.get("c09", True) and stats["changed"]:
                _check_converges(out_lines, path, cfgname, probs)
        except Exception as e:  # noqa: raised by VSG while re-reading / re-checking its own output
            tb = traceback.extract_tb(e.__traceback__)[-1]
            probs["C19"].append(("", "re-reading or re-checking the fixed text raised %s: %s at %s:%d" % (type(e).__name__, e, os.path.basename(tb.filename), tb.lineno)))
    finally:
        signal.alarm(0)
        rule.Rule.fix, rule.Rule.analyze = orig_fix, orig_analyze
    return probs, stats


class _Whole(object):
    unique_id = "(whole run)"


def _write_tmp(lines, path):
    import tempfile

    fd, p = tempfile.mkstemp(suffix=".vhd", prefix="vrf_")
    with os.fdopen(fd, "w", encoding="utf-8") as f:
        f.write("\n".join(lines) + "\n")
    return p


def _report(oRules):
    out = []
    for o in oRules.rules:
        for v in o.violations:
            out.append((o.unique_id, v.get_line_number(), v.get_solution()))
    return sorted(out)


def _check_reparse(oFile, oRules, oConfig, out_lines, path, cfgname, probs, K):
    """C08: the emitted text is accepted and parses to the same model; the report after fixing equals a fresh check"""
    oRules.clear_violations()
    try:
        oRules.check_rules(True, list(SKIPS.get(cfgname, [])))
    except Exception as e:  # noqa
        probs["C19"].append(("", "check after fix raised %r" % (e,)))
        return
    rep_mem = _report(oRules)
    p = _write_tmp(out_lines, path)
    try:
        try:
            ld = load(p, cfgname)
        except Exception as e:  # noqa
            probs["C08"].append(("", "re-reading the fixed text raised %r" % (e,)))
            return
        if ld is None:
            probs["C08"].append(("", "the fixed text is rejected by VSG"))
            return
        f2, r2, c2, l2 = ld
        a = [(kind_of(t, K), t.get_value(), type(t).__module__ + "." + type(t).__name__, t.get_indent()) for t in oFile.lAllObjects]
        b = [(kind_of(t, K), t.get_value(), type(t).__module__ + "." + type(t).__name__, t.get_indent()) for t in f2.lAllObjects]
        if [(x[0], x[1]) for x in a] != [(x[0], x[1]) for x in b]:
            probs["C08"].append(("", _first_diff("token sequence of the in-memory model differs from a fresh parse of the emitted text", [x[1] for x in a], [x[1] for x in b])))
        else:
            for i, (x, y) in enumerate(zip(a, b)):
                if x[2] != y[2]:
                    probs["C08"].append(("", "token %d %r has role %s in memory but %s when re-read" % (i, x[1], x[2], y[2])))
                    break
                if x[0] == "code" and x[3] != y[3] and x[3] is not None and y[3] is not None:
                    probs["C08"].append(("", "token %d %r has indent level %s in memory but %s when re-read" % (i, x[1], x[3], y[3])))
                    break
        r2.check_rules(True, list(SKIPS.get(cfgname, [])))
        rep_new = _report(r2)
        if rep_mem != rep_new:
            d = [x for x in rep_mem if x not in rep_new][:2] + [x for x in rep_new if x not in rep_mem][:2]
            probs["C08"].append(("", "report after fixing differs from a fresh check of the written text, e.g. %r" % (d,)))
    finally:
        os.remove(p)


def _check_converges(out_lines, path, cfgname, probs):
    """C09: fixing the fixed text again changes nothing; no oscillation within 4 further runs"""
    seen = [out_lines]
    cur = out_lines
    for n in range(4):
        p = _write_tmp(cur, path)
        try:
            ld = load(p, cfgname)
            if ld is None:
                return
            f2, r2, c2, l2 = ld
            r2.fix(7, list(SKIPS.get(cfgname, [])), None)
            nxt = f2.get_lines()[1:]
        except Exception:  # C19/C08 report crashes
            return
        finally:
            os.remove(p)
        if nxt == cur:
            return
        if n == 0:
            d = [(i + 1, x, y) for i, (x, y) in enumerate(zip(cur, nxt)) if x != y][:1]
            probs["C09"].append(("", "a second --fix changed the file again: %r" % (d or [("lines", len(cur), len(nxt))],)))
        if nxt in seen:
            probs["C09"].append(("", "fixing oscillates: run %d reproduces the text of run %d" % (n + 2, seen.index(nxt) + 1)))
            return
        seen.append(nxt)
        cur = nxt


# ------------------------------------------------------------------------------------------------ check mode (C06, C18)
def check_run(args):
    """instrumented check run (no fix): analysis is read-only and repeatable, rules do not interfere, the index stays
    equal to a recomputation at every analysis, every region is a slice of the list."""
    path, cfgname, opts = args
    import random

    from vsg import rule
    from vsg.token_map import process_tokens

    K = kinds()
    probs = {"C06": [], "C18": [], "C19": []}
    stats = {"accepted": False, "violations": 0}
    try:
        ld = load(path, cfgname)
    except Exception as e:  # noqa
        probs["C19"].append(("", "exception while loading/configuring: %r" % (e,)))
        return probs, stats
    if ld is None:
        return probs, stats
    oFile, oRules, oConfig, lines = ld
    stats["accepted"] = True

    def model(oF):
        return [(type(t), t.value, t.indent, tuple(t.code_tags)) for t in oF.lAllObjects]

    orig_analyze = rule.Rule.analyze
    state = {"on": True}

    def index_ok(self, oF):
        if not state["on"]:
            return
        ref = process_tokens(oF.lAllObjects)
        if ref.dMap != oF.oTokenMap.dMap:
            bad = [(b, s) for b in ref.dMap for s in ref.dMap[b] if oF.oTokenMap.dMap.get(b, {}).get(s) != ref.dMap[b][s]][:1]
            probs["C18"].append((self.unique_id, "token index differs from the token list before analysis in a check run (e.g. %r)" % (bad,)))
            state["on"] = False

    def my_analyze(self, oF):
        index_ok(self, oF)
        return orig_analyze(self, oF)

    overridden = []
    for t in {type(o) for o in oRules.rules}:
        for c in t.__mro__:
            if c is not rule.Rule and c is not object and "analyze" in c.__dict__ and c not in [x[0] for x in overridden]:
                overridden.append((c, c.__dict__["analyze"]))

    def mk(_a):
        def w(self, oF):
            index_ok(self, oF)
            return _a(self, oF)

        return w

    rule.Rule.analyze = my_analyze
    for c, a in overridden:
        c.analyze = mk(a)
    try:
        m0 = model(oFile)
        try:
            oRules.check_rules(True, [])
        except Exception as e:  # noqa
            tb = traceback.extract_tb(e.__traceback__)[-1]
            probs["C19"].append(("", "check run raised %s: %s at %s:%d" % (type(e).__name__, e, os.path.basename(tb.filename), tb.lineno)))
            return probs, stats
        m1 = model(oFile)
        v1 = _report(oRules)
        stats["violations"] = len(v1)
        if m1 != m0:
            i = next((i for i, (x, y) in enumerate(zip(m0, m1)) if x != y), -1)
            what = "length" if i < 0 else ("token %d %r: %s" % (i, m0[i][1], "class" if m0[i][0] != m1[i][0] else "value" if m0[i][1] != m1[i][1] else "indent" if m0[i][2] != m1[i][2] else "code tags"))
            probs["C06"].append(("", "a check run altered the in-memory file (%s)" % what))
        oRules.clear_violations()
        oRules.check_rules(True, [])
        v2 = _report(oRules)
        if v2 != v1:
            d = [x for x in v1 if x not in v2][:1] + [x for x in v2 if x not in v1][:1]
            probs["C06"].append(("", "repeating the check gives a different report, e.g. %r" % (d,)))
    finally:
        rule.Rule.analyze = orig_analyze
        for c, a in overridden:
            c.analyze = a
    # disabling a set of rules removes exactly their violations
    r = random.Random(opts.get("seed", 0))
    have = sorted({x[0] for x in v1})
    D = set(r.sample(have, min(len(have), r.randint(1, 3)))) if have else set()
    alln = [o.unique_id for o in oRules.rules if not o.disable and not o.deprecated]
    D |= set(r.sample(alln, 2))
    ld2 = load(path, cfgname)
    if ld2 is None:
        return probs, stats
    oFile2, oRules2, c2, l2 = ld2
    for o in oRules2.rules:
        if o.unique_id in D:
            o.disable = True
    try:
        oRules2.check_rules(True, [])
    except Exception as e:  # noqa
        probs["C19"].append(("", "check run with %s disabled raised %r" % (sorted(D), e)))
        return probs, stats
    v3 = _report(oRules2)
    exp = [x for x in v1 if x[0] not in D]
    if v3 != exp:
        d = [x for x in exp if x not in v3][:1] + [x for x in v3 if x not in exp][:1]
        probs["C06"].append(("", "disabling %s changed the violations of other rules, e.g. %r" % (sorted(D), d)))
    return probs, stats
