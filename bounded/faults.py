# -*- coding: utf-8 -*-
"""Fault / crash-point enumeration for the real apply_rules.write_vhdl_file (C16): validates the ghost-file-system
model concretely and provides replayable failing inputs.  Every scenario runs the REAL function in a forked child
with one OS call made to fail (three exception kinds, partial write) or the child killed right before / after it."""
import builtins
import errno
import os
import shutil
import stat
import tempfile

ORIG = "original line 1\noriginal line 2\n"
FIXED_LINES = ["", "fixed line 1", "fixed line 2", "fixed line 3"]
FIXED = "\n".join(FIXED_LINES[1:]) + "\n"
CALLS = ["stat", "open", "write1", "write2", "chmod", "replace", "remove"]
EXCS = {"PermissionError": lambda: PermissionError(errno.EACCES, "injected"), "FileNotFoundError": lambda: FileNotFoundError(errno.ENOENT, "injected"), "OSError": lambda: OSError(errno.ENOSPC, "injected")}
MODES = [0o600, 0o755, 0o444, 0o644]


class FakeFile(object):
    def __init__(self, name):
        self.filename = name

    def get_lines(self):
        return list(FIXED_LINES)


def scenarios():
    out = []
    for call in CALLS:
        for kind in ["PermissionError", "FileNotFoundError", "OSError", "kill-before", "kill-after"]:
            for mode in MODES:
                out.append((call, kind, mode))
    for mode in MODES:
        out.append(("none", "none", mode))
    # the path handed to --fix is a symbolic link to the real file (a shared source tree linked into a project)
    for call in CALLS:
        for kind in ["OSError", "kill-before", "kill-after"]:
            out.append((call, kind, 0o640, "symlink"))
    out.append(("none", "none", 0o640, "symlink"))
    return out


def child(call, kind, target):
    from vsg import apply_rules

    real = {"stat": os.stat, "chmod": os.chmod, "replace": os.replace, "remove": os.remove, "open": builtins.open}
    nwrite = [0]

    def trigger(name, do):
        if name != call:
            return do()
        if kind == "kill-before":
            os._exit(137)
        if kind == "kill-after":
            do()
            os._exit(137)
        raise EXCS[kind]()

    os.stat = lambda p, *a, **k: trigger("stat", lambda: real["stat"](p, *a, **k)) if str(p) == target else real["stat"](p, *a, **k)
    os.chmod = lambda p, m, *a, **k: trigger("chmod", lambda: real["chmod"](p, m, *a, **k))
    os.replace = lambda a, b, *x, **k: trigger("replace", lambda: real["replace"](a, b, *x, **k))
    os.remove = lambda p, *a, **k: trigger("remove", lambda: real["remove"](p, *a, **k)) if str(p).endswith(".tmp") else real["remove"](p, *a, **k)

    class W(object):
        def __init__(self, f):
            self.f = f

        def write(self, s):
            nwrite[0] += 1
            name = "write%d" % nwrite[0]
            if name == call and kind not in ("kill-before", "kill-after"):
                self.f.write(s[: len(s) // 2])
                self.f.flush()
                raise EXCS[kind]()
            if name == call and kind == "kill-before":
                self.f.write(s[: len(s) // 2])
                self.f.flush()
                os._exit(137)
            r = self.f.write(s)
            if name == call and kind == "kill-after":
                self.f.flush()
                os._exit(137)
            return r

        def __enter__(self):
            return self

        def __exit__(self, *a):
            self.f.close()
            return False

    def my_open(p, mode="r", *a, **k):
        if str(p).endswith(".tmp") or (str(p) == target and "w" in mode):
            return trigger("open", lambda: W(real["open"](p, mode, *a, **k)))
        return real["open"](p, mode, *a, **k)

    apply_rules.open = my_open  # module-level name lookup of `open` inside apply_rules
    try:
        apply_rules.write_vhdl_file(FakeFile(target), {})
    except OSError:
        os._exit(3)
    os._exit(0)


def run_scenario(sc):
    call, kind, mode = sc[:3]
    link = len(sc) > 3 and sc[3] == "symlink"
    d = tempfile.mkdtemp(prefix="c16_")
    try:
        target = os.path.join(d, "t.vhd")
        real_file = target
        if link:
            os.mkdir(os.path.join(d, "shared"))
            real_file = os.path.join(d, "shared", "t.vhd")
        with open(real_file, "w") as f:
            f.write(ORIG)
        os.chmod(real_file, mode)
        if link:
            os.symlink(real_file, target)
        from vsg import apply_rules  # noqa: F401  (import before forking: the child only patches and calls)

        pid = os.fork()
        if pid == 0:
            try:
                devnull = os.open(os.devnull, os.O_WRONLY)
                os.dup2(devnull, 1)
                os.dup2(devnull, 2)
                child(call, kind, target)
            finally:
                os._exit(99)
        _, status = os.waitpid(pid, 0)
        code = os.waitstatus_to_exitcode(status)
        problems = []
        if not os.path.exists(target):
            problems.append("target file is gone")
        else:
            content = open(target).read()
            if content not in (ORIG, FIXED):
                problems.append("target holds neither the original nor the complete fixed text: %r" % content[:60])
            m = stat.S_IMODE(os.stat(target).st_mode)
            if m != mode:
                problems.append("permission bits changed %o -> %o (content=%s)" % (mode, m, "fixed" if content == FIXED else "original"))
            if call == "none" and content != FIXED:
                problems.append("no fault injected but the file was not updated")
            if link:
                rc = open(real_file).read()
                if rc not in (ORIG, FIXED):
                    problems.append("the file the link points to holds neither the original nor the complete fixed text: %r" % rc[:60])
                if stat.S_IMODE(os.stat(real_file).st_mode) != mode:
                    problems.append("permission bits of the file the link points to changed")
        killed = code == 137
        if not killed and os.path.exists(target + ".tmp"):
            problems.append("temporary file left behind after a non-fatal failure")
        if code == 99:
            problems.append("child ended with an unexpected exception")
        if not killed and kind in ("FileNotFoundError", "OSError") and call != "remove" and code == 0:
            problems.append("a %s from %s was swallowed" % (kind, call))
        return (sc, problems)
    finally:
        for root, dirs, files in os.walk(d):
            for x in files:
                try:
                    os.chmod(os.path.join(root, x), 0o600)
                except OSError:
                    pass
        shutil.rmtree(d, ignore_errors=True)


# ------------------------------------------------------------------------------------------------ the backup is a faithful copy
BACKUP_INPUTS = {
    "lf_utf8": b"entity  e1 is\nend entity e1;\n",
    "crlf": b"entity  e1 is\r\nend entity e1;\r\n",
    "cr_only": b"entity  e1 is\rend entity e1;\r",
    "no_final_newline": b"entity  e1 is\nend entity e1;",
    "latin1_comment": b"-- gr\xf6\xdfe in \xb5s\nentity  e1 is\nend entity e1;\n",
    "utf8_bom_like_comment": "-- größe in µs, 中\nentity  e1 is\nend entity e1;\n".encode("utf-8"),
    "trailing_blanks_and_tabs": b"entity  e1 is \t \nend entity e1;\n\n\n",
}


def backup_case(name):
    """real CLI --fix --backup: <file>.bak holds exactly the bytes (and the mode) the file had; with a linesep configuration too"""
    import subprocess
    import tempfile

    out = []
    for cfg in (None, {"linesep": "\r\n"}):
        d = tempfile.mkdtemp(prefix="c16b_")
        try:
            p = os.path.join(d, "e1.vhd")
            with open(p, "wb") as fh:
                fh.write(BACKUP_INPUTS[name])
            os.chmod(p, 0o640)
            cmd = ["/venv/bin/vsg", "-f", "e1.vhd", "--fix", "--backup", "-p", "1"]
            if cfg:
                import json

                json.dump(cfg, open(os.path.join(d, "cfg.json"), "w"))
                cmd += ["-c", "cfg.json"]
            r = subprocess.run(cmd, cwd=d, capture_output=True, text=True, timeout=180)
            if "Traceback" in r.stdout + r.stderr:
                out.append("%s%s: traceback: %s" % (name, " +linesep" if cfg else "", (r.stdout + r.stderr).strip().split("\n")[-1][:120]))
                continue
            bak = p + ".bak"
            if not os.path.exists(bak):
                out.append("%s%s: no backup file was written" % (name, " +linesep" if cfg else ""))
                continue
            b = open(bak, "rb").read()
            if b != BACKUP_INPUTS[name]:
                out.append("%s%s: the backup is not a faithful copy: %r instead of %r" % (name, " +linesep" if cfg else "", b[:50], BACKUP_INPUTS[name][:50]))
            if stat.S_IMODE(os.stat(bak).st_mode) != 0o640:
                out.append("%s%s: the backup has mode %o, the file had 640" % (name, " +linesep" if cfg else "", stat.S_IMODE(os.stat(bak).st_mode)))
        finally:
            shutil.rmtree(d, ignore_errors=True)
    return (name, out)
