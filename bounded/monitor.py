# -*- coding: utf-8 -*-
"""Run-time evaluation of the sidecar contracts of the fix bases (contracts/fixes.py) at every REAL _fix_violation call of a
pipeline run: the precondition V_F that the deductive proofs assume for the bases whose _analyze is not under contract is
OBSERVED here, and the postconditions are cross-checked against CPython (a discharged clause that fails is a checker fault).
The contract text is the text the verifier reads; nothing is re-stated."""
import importlib.util
import os

from pyvc import concrete

HERE = os.path.dirname(os.path.abspath(__file__))
_CACHE = {}


def _load():
    if _CACHE:
        return _CACHE
    mods = {}
    for f in ("vhdlfile.py", "fixes.py", "tags.py"):
        spec = importlib.util.spec_from_file_location("mon_" + f[:-3], os.path.join(HERE, "..", "contracts", f))
        m = importlib.util.module_from_spec(spec)
        spec.loader.exec_module(m)
        mods[f] = m
    homs = {}
    for m in mods.values():
        homs.update(getattr(m, "HOMS", {}))
    from vsg import parser

    vocab = concrete.hom_vocab(homs, {"parser": parser, "lower": lambda s: s.lower(), "implies": lambda a, b: (not a) or b})
    cts = {q: c for q, c in mods["fixes.py"].CONTRACTS.items() if q.endswith("._fix_violation")}
    _CACHE.update({"vocab": vocab, "contracts": cts})
    return _CACHE


def install(sink):
    """patch the _fix_violation of every base under contract; sink: dict with lists 'pre_false', 'post_fail' and counter 'calls'.
    returns the function that undoes the patch"""
    c = _load()
    saved = []
    for q, ct in c["contracts"].items():
        modname, clsname, fname = q.rsplit(".", 2)
        mod = importlib.import_module(modname)
        cls = getattr(mod, clsname)
        real = cls.__dict__[fname]

        def wrapper(self, oViolation, _q=q, _ct=ct, _real=real):
            sink["calls"] = sink.get("calls", 0) + 1
            # distinct cases: (base, rule, classes of the region's tokens, action)
            try:
                sig = hash((_q, self.unique_id, tuple(type(t).__name__ for t in oViolation.get_tokens()), repr(oViolation.get_action())[:60])) & 0xFFFFFFFF
                sh = sink.setdefault("shapes", [])
                if len(sh) < 4000 and sig not in sh:
                    sh.append(sig)
            except Exception:
                pass
            try:
                out = concrete.check_call(_q, _ct, {"self": self, "oViolation": oViolation}, c["vocab"], fn=_real)
            except RecursionError:
                raise
            if out.status == "pre-false":
                # the call must still happen: the contract says nothing about it
                if len(sink.setdefault("pre_false", [])) < 5:
                    sink["pre_false"].append((_q.split(".")[-2], self.unique_id, oViolation.get_line_number(), repr(oViolation.get_action())[:80], [type(t).__name__ for t in oViolation.get_tokens()][:6]))
                sink["n_pre_false"] = sink.get("n_pre_false", 0) + 1
                return _real(self, oViolation)
            if out.status in ("post-fail", "spec-error"):
                if len(sink.setdefault("post_fail", [])) < 5:
                    sink["post_fail"].append((_q.split(".")[-2], self.unique_id, oViolation.get_line_number(), out.detail[:300]))
            if out.status == "raised":
                # re-raise what the real function raised: the pipeline records it under C19
                raise out.exc
            return None

        setattr(cls, fname, wrapper)
        saved.append((cls, fname, real))

    def undo():
        for cls, fname, real in saved:
            setattr(cls, fname, real)

    return undo
