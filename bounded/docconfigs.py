# -*- coding: utf-8 -*-
"""Documented configurations: every YAML / JSON code block of docs/*.rst that is a VSG configuration (has a rule, indent, severity,
skip_phase, linesep or pragma section).  They are the option values users are told to write, so they are part of the bounded
universe ("under every configuration").  Blocks whose rule names are placeholders, or that VSG itself rejects on an empty
file, are dropped.  Option VALUES that appear only in the option tables (|<option>__<value>| substitutions of docs/configuring_*.rst)
are harvested too: one configuration per (page, option, value), setting the option on every rule the page lists; so are the
values the rule pages name in a heading ("parenthesis set to 'remove'") and the values the rules' own code compares an option with
(doc:code:...), which covers options that no page tabulates."""
import glob
import os
import re
import textwrap

_CACHE = {}
KEEP = ("rule", "indent", "severity", "skip_phase", "linesep", "pragma")


def harvest(repo):
    if repo in _CACHE:
        return _CACHE[repo]
    import yaml

    out = {}
    for f in sorted(glob.glob(os.path.join(repo, "docs", "*.rst"))):
        txt = open(f, encoding="utf-8").read()
        n = 0
        page_severity = None
        for m in re.finditer(r"\.\. code-[bB]lock:: (yaml|json)\n\n((?:[ \t]+.*\n|\n)+)", txt):
            n += 1
            try:
                d = yaml.safe_load(textwrap.dedent(m.group(2)))
            except Exception:
                continue
            if not isinstance(d, dict):
                continue
            d = {k: v for k, v in d.items() if k in KEEP}
            if not d:
                continue
            name = "doc:%s#%d" % (os.path.basename(f)[:-4], n)
            if "severity" in d:
                page_severity = d["severity"]
            if _accepted(d):
                out[name] = d
            elif page_severity is not None and "severity" not in d and _accepted(dict(d, severity=page_severity)):
                # a fragment that uses the severities an earlier block of the same page defines: the two together are the configuration
                out[name] = dict(d, severity=page_severity)
    for src in (_option_values, _code_option_values, _rule_page_values):
        for name, d in src(repo).items():
            if _accepted(d):
                out[name] = d
    _CACHE[repo] = out
    return out


def _accepted(cfg):
    """VSG configures an empty file with it without complaint"""
    import contextlib
    import importlib
    import io

    from vsg import config, rule_list, vhdlFile

    try:
      with contextlib.redirect_stdout(io.StringIO()), contextlib.redirect_stderr(io.StringIO()):
            vf = importlib.import_module("vsg.vhdlFile.vhdlFile")
            cla = vf.command_line_args()
            cla.style = None
            oConfig = config.New(cla)
            import copy

            for k, v in copy.deepcopy(cfg).items():
                if k == "rule":
                    oConfig.dConfig.setdefault("rule", {})
                    oConfig.dConfig["rule"].update(v)
                else:
                    oConfig.dConfig[k] = v
            if "severity" in cfg:
                from vsg import severity

                oConfig.severity_list = severity.create_list(oConfig.dConfig)
            if "indent" in cfg:
                oConfig.dIndent = config.read_indent_configuration(oConfig.dConfig)
            oFile = vhdlFile.vhdlFile([""], configuration=oConfig)
            oRules = rule_list.rule_list(oFile, oConfig.severity_list)
            oRules.configure(oConfig)
            # a configuration that names a severity nobody defined leaves the rule without one: not a valid configuration
            return all(oRule.severity is not None for oRule in oRules.rules)
    except BaseException:
        return False


def _option_values(repo):
    """(page, option, value) triples: the substitutions '|<option>__<value>| replace:: :code:`<value>` = ...' of the option
    tables, the rules of the page (its '* `rule_id <...>`_' bullets), and for each triple the configuration that sets the
    option to that value on every rule of the page that has the option (on every rule that has it, when the page lists none)."""
    import contextlib
    import io

    import yaml

    from vsg import rule_list, vhdlFile

    with contextlib.redirect_stdout(io.StringIO()), contextlib.redirect_stderr(io.StringIO()):
        oRules = rule_list.rule_list(vhdlFile.vhdlFile([""]), None)
    has, default = {}, {}
    for oRule in oRules.rules:
        for opt in oRule.configuration:
            has.setdefault(opt, []).append(oRule.get_unique_id())
            default[(oRule.get_unique_id(), opt)] = getattr(oRule, opt, None)
    out = {}
    for f in sorted(glob.glob(os.path.join(repo, "docs", "configuring_*.rst"))):
        txt = open(f, encoding="utf-8").read()
        page = os.path.basename(f)[len("configuring_") : -4]
        listed = set(re.findall(r"^\* `([a-z_0-9]+) <", txt, re.M))
        for m in re.finditer(r"^\.\. \|([a-z_0-9]+?)__([a-z_0-9]+)\| replace::\n\s+:code:`([^`]+)`", txt, re.M):
            opt, _, val = m.groups()
            if opt not in has:
                continue
            rules = [r for r in has[opt] if r in listed] if listed else list(has[opt])
            if not rules:
                continue
            try:
                v = yaml.safe_load(val)
            except Exception:
                continue
            if not isinstance(v, (str, bool, int)):
                continue
            # a number where the rule keeps a string (standard: 2008) is written as the string the documentation quotes
            out["doc:values:%s:%s=%s" % (page, opt, val)] = {"rule": {r: {opt: (val if isinstance(default[(r, opt)], str) and not isinstance(v, (str, bool)) else v)} for r in sorted(rules)}}
    return out


def _code_option_values(repo):
    """option values the CODE distinguishes: for every string-valued option of a rule, the string literals the rule's classes
    compare `self.<option>` with (directly, or inside a function of the same module that is handed `self.<option>`).  One
    configuration per (option, value): the value on every rule whose code mentions it and whose default differs."""
    import ast
    import contextlib
    import inspect
    import io

    from vsg import rule_list, vhdlFile

    with contextlib.redirect_stdout(io.StringIO()), contextlib.redirect_stderr(io.StringIO()):
        oRules = rule_list.rule_list(vhdlFile.vhdlFile([""]), None)
    base = {"indent_style", "indent_size", "phase", "disable", "fixable", "severity", "user_error_message"}
    mod_cache = {}

    def literals(modname, opt):
        key = (modname, opt)
        if key in mod_cache:
            return mod_cache[key]
        out = set()
        try:
            import importlib

            tree = ast.parse(inspect.getsource(importlib.import_module(modname)))
        except Exception:
            mod_cache[key] = out
            return out

        def is_self_opt(n):
            return isinstance(n, ast.Attribute) and n.attr == opt and isinstance(n.value, ast.Name) and n.value.id == "self"

        def cmp_literals(body, match):
            for n in ast.walk(body):
                if isinstance(n, ast.Compare) and len(n.ops) == 1 and isinstance(n.ops[0], (ast.Eq, ast.NotEq, ast.In, ast.NotIn)):
                    sides = [n.left, n.comparators[0]]
                    for a, b in (sides, sides[::-1]):
                        if match(a):
                            if isinstance(b, ast.Constant) and isinstance(b.value, str):
                                out.add(b.value)
                            elif isinstance(b, (ast.List, ast.Tuple)):
                                out.update(e.value for e in b.elts if isinstance(e, ast.Constant) and isinstance(e.value, str))

        cmp_literals(tree, is_self_opt)
        funcs = {n.name: n for n in ast.walk(tree) if isinstance(n, ast.FunctionDef)}
        for n in ast.walk(tree):
            if isinstance(n, ast.Call) and isinstance(n.func, ast.Name) and n.func.id in funcs:
                for i, a in enumerate(n.args):
                    if is_self_opt(a) and i < len(funcs[n.func.id].args.args):
                        pname = funcs[n.func.id].args.args[i].arg
                        cmp_literals(funcs[n.func.id], lambda x, pname=pname: isinstance(x, ast.Name) and x.id == pname)
        mod_cache[key] = out
        return out

    by = {}
    for oRule in oRules.rules:
        if oRule.deprecated:
            continue
        for opt in oRule.configuration:
            cur = getattr(oRule, opt, None)
            if opt in base or not isinstance(cur, str):
                continue
            vals = set()
            for c in type(oRule).__mro__:
                if c.__module__.startswith("vsg."):
                    vals |= literals(c.__module__, opt)
            for v in sorted(vals):
                if v != cur and v != "":
                    by.setdefault((opt, v), {})[oRule.unique_id] = {opt: v}
    return {"doc:code:%s=%s" % k: {"rule": v} for k, v in sorted(by.items())}


def _rule_page_values(repo):
    """option values named in the rule pages (docs/*_rules.rst): a heading "<option> set to '<value>'" inside the section of a rule"""
    out = {}
    for f in sorted(glob.glob(os.path.join(repo, "docs", "*_rules.rst"))):
        rid = None
        lines = open(f, encoding="utf-8").read().split("\n")
        for i, l in enumerate(lines):
            if re.match(r"^[a-z_]+_\d{3}$", l) and i + 1 < len(lines) and set(lines[i + 1]) == {"#"}:
                rid = l
            m = re.match(r"^(\w+) set to '([^']+)'", l)
            if m and rid and "(Default)" not in l:
                out["doc:rulepage:%s:%s=%s" % (rid, m.group(1), m.group(2))] = {"rule": {rid: {m.group(1): m.group(2)}}}
    return out
