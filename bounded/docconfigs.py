# -*- coding: utf-8 -*-
"""Documented configurations: every YAML / JSON code block of docs/*.rst that is a VSG configuration (has a rule, indent, severity,
skip_phase, linesep or pragma section).  They are the option values users are told to write, so they are part of the bounded
universe ("under every configuration").  Blocks whose rule names are placeholders, or that VSG itself rejects on an empty
file, are dropped."""
import glob
import os
import re
import textwrap

_CACHE = {}
KEEP = ("rule", "indent", "severity", "skip_phase", "linesep", "pragma")


def harvest(repo):
    if repo in _CACHE:
        return _CACHE[repo]
    import yaml

    out = {}
    for f in sorted(glob.glob(os.path.join(repo, "docs", "*.rst"))):
        txt = open(f, encoding="utf-8").read()
        n = 0
        for m in re.finditer(r"\.\. code-[bB]lock:: (yaml|json)\n\n((?:[ \t]+.*\n|\n)+)", txt):
            n += 1
            try:
                d = yaml.safe_load(textwrap.dedent(m.group(2)))
            except Exception:
                continue
            if not isinstance(d, dict):
                continue
            d = {k: v for k, v in d.items() if k in KEEP}
            if not d:
                continue
            name = "doc:%s#%d" % (os.path.basename(f)[:-4], n)
            if _accepted(d):
                out[name] = d
    _CACHE[repo] = out
    return out


def _accepted(cfg):
    """VSG configures an empty file with it without complaint"""
    import contextlib
    import importlib
    import io

    from vsg import config, rule_list, vhdlFile

    try:
      with contextlib.redirect_stdout(io.StringIO()), contextlib.redirect_stderr(io.StringIO()):
            vf = importlib.import_module("vsg.vhdlFile.vhdlFile")
            cla = vf.command_line_args()
            cla.style = None
            oConfig = config.New(cla)
            import copy

            for k, v in copy.deepcopy(cfg).items():
                if k == "rule":
                    oConfig.dConfig.setdefault("rule", {})
                    oConfig.dConfig["rule"].update(v)
                else:
                    oConfig.dConfig[k] = v
            if "severity" in cfg:
                from vsg import severity

                oConfig.severity_list = severity.create_list(oConfig.dConfig)
            if "indent" in cfg:
                oConfig.dIndent = config.read_indent_configuration(oConfig.dConfig)
            oFile = vhdlFile.vhdlFile([""], configuration=oConfig)
            oRules = rule_list.rule_list(oFile, oConfig.severity_list)
            oRules.configure(oConfig)
            return True
    except BaseException:
        return False
