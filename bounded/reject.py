# -*- coding: utf-8 -*-
"""C19, second sentence: a file VSG rejects is rejected with a located one-line syntax message, never with another
exception and never by not terminating.  Bounded stand-in: malformed variants of accepted files (a stray keyword on
its own line, a deleted line, a deleted delimiter, a truncated file, a duplicated line) are classified by the REAL
parser under a wall-clock limit.  Outcomes: accepted | ClassifyError with a 'Line <n>' message | finding."""
import os
import random
import re
import signal
import traceback

STRAY = ["begin", "else", "elsif x then", ")", "end", ";", "is", "then", "(", "generate", "end if;", "when others =>", "loop", "end process;"]
DROP = [";", " is", "begin", "end", " then", "(", ")", ":", ":=", "<="]
LIMIT = 20


class Hang(Exception):
    pass


def _alarm(signum, frame):
    raise Hang()


def mutate(lines, r):
    lines = list(lines)
    n = len(lines)
    if n == 0:
        return lines, "empty"
    op = r.choice(["stray", "stray", "stray", "delete_line", "drop_token", "truncate", "duplicate_line"])
    i = r.randrange(n)
    if op == "stray":
        tok = r.choice(STRAY)
        indent = re.match(r"\s*", lines[i]).group(0)
        lines.insert(i, indent + tok)
        return lines, "stray %r inserted before line %d" % (tok, i + 1)
    if op == "delete_line":
        del lines[i]
        return lines, "line %d deleted" % (i + 1)
    if op == "drop_token":
        cands = [(k, t) for k in range(n) for t in DROP if t in lines[k] and not lines[k].lstrip().startswith("--")]
        if not cands:
            return lines, "unchanged"
        k, t = r.choice(cands)
        lines[k] = lines[k].replace(t, "", 1)
        return lines, "first %r of line %d deleted" % (t, k + 1)
    if op == "truncate":
        return lines[: i + 1], "truncated after line %d" % (i + 1)
    lines.insert(i, lines[i])
    return lines, "line %d duplicated" % (i + 1)


def site(tb):
    """innermost frame inside vsg: (file relative to the package, function)"""
    fr = [f for f in traceback.extract_tb(tb) if "/vsg/" in f.filename]
    if not fr:
        return "?"
    f = fr[-1]
    return "%s:%s" % (f.filename.split("/vsg/", 1)[1], f.name)


def one(args):
    path, seed = args
    from vsg import vhdlFile
    from vsg.exceptions import ClassifyError
    from vsg.vhdlFile import utils

    r = random.Random(seed)
    lines, err = utils.read_vhdlfile(path)
    mlines, what = mutate(lines, r)
    signal.signal(signal.SIGALRM, _alarm)
    signal.alarm(LIMIT)
    try:
        try:
            vhdlFile.vhdlFile(mlines, sFilename="mutant.vhd")
            return (path, seed, what, "accepted", None)
        except ClassifyError as e:
            msg = getattr(e, "message", str(e))
            if not re.search(r"Line \d+", msg):
                return (path, seed, what, "unlocated", "ClassifyError without a line number: %r" % msg[:120])
            return (path, seed, what, "rejected", None)
        except Hang:
            return (path, seed, what, "hang", "classification did not terminate within %d s" % LIMIT)
        except RecursionError as e:
            return (path, seed, what, "crash", "RecursionError at %s" % site(e.__traceback__))
        except Exception as e:
            return (path, seed, what, "crash", "%s at %s" % (type(e).__name__, site(e.__traceback__)))
    finally:
        signal.alarm(0)


def cli_case(args):
    """the real CLI on [rejected file, good file]: located message on stderr/stdout, exit status 1, good file processed"""
    path, seed = args
    import shutil
    import subprocess
    import tempfile

    from vsg.vhdlFile import utils

    r = random.Random(seed)
    lines, err = utils.read_vhdlfile(path)
    # a stray token at statement level is the canonical syntax error
    mlines = list(lines)
    k = r.randrange(len(mlines)) if mlines else 0
    mlines.insert(k, r.choice(["begin", "else", ")", "end generate;", "elsif x then"]))
    d = tempfile.mkdtemp(prefix="c19r_")
    try:
        open(os.path.join(d, "bad.vhd"), "w").write("\n".join(mlines) + "\n")
        open(os.path.join(d, "good.vhd"), "w").write("entity good is\nend entity good;\n")
        try:
            p = subprocess.run(["/venv/bin/vsg", "-f", "bad.vhd", "good.vhd", "-of", "syntastic", "-p", "1"], cwd=d, capture_output=True, text=True, timeout=120)
        except subprocess.TimeoutExpired:
            return (path, seed, "hang", "vsg did not terminate within 120 s on [bad.vhd, good.vhd] (stray token before line %d)" % (k + 1))
        out = p.stdout + p.stderr
        if "Traceback" in out:
            fr = [m for m in re.findall(r'File "[^"]*/vsg/([^"]+)", line \d+, in (\w+)', out) if m[0] != "__main__.py"]
            last = out.strip().split("\n")[-1].split(":")[0]
            return (path, seed, "crash", "%s at %s:%s" % (last, fr[-1][0], fr[-1][1]) if fr else "traceback: " + out.strip().split("\n")[-1][:160])
        rejected = "Error" in out and "bad.vhd" in out
        if rejected:
            if p.returncode != 1:
                return (path, seed, "status", "bad.vhd was rejected but the exit status is %d" % p.returncode)
            if not re.search(r"Line \d+", out):
                return (path, seed, "unlocated", "rejection message has no line number: %r" % out.strip()[:160])
        return (path, seed, "ok", None)
    finally:
        shutil.rmtree(d, ignore_errors=True)


# ------------------------------------------------------------------------------------------------ construct snippets, exhaustively
# Small valid declarations / statements that exercise the classifier's parenthesis matching and list loops; EVERY single-token
# deletion and EVERY truncation of each of them is classified under a time limit (about 1,100 cases).  This is what found the two
# hangs repaired by the last two fix commits (a resolution indication without ')' and a physical type without 'end units').
SNIPPET_DECLS = [
    "signal s : (resolved_fn) std_logic;",
    "subtype t is (rf) integer range 0 to 3;",
    "signal s : std_logic_vector(7 downto 0) := (others => '0');",
    "signal r : rec_t(a(3 downto 0), b(1 downto 0));",
    "type t is (a, b, c);",
    "type a_t is array (0 to 3) of integer;",
    "type a_t is array (natural range <>) of integer;",
    "type r_t is record a : integer; b : std_logic_vector(3 downto 0); end record r_t;",
    "function f (a : integer; b : integer) return integer;",
    "procedure p (signal a : in integer);",
    "component c is port (a : in std_logic); end component c;",
    "constant c : t := (others => '0');",
    "attribute a of s : signal is (1, 2);",
    "alias x is y [integer, integer return boolean];",
    "alias x is << signal .tb.dut.s : std_logic_vector(3 downto 0) >>;",
    "type t is range 0 to 10 units ns; us = 1000 ns; end units t;",
    'file f : t open read_mode is "x";',
    "group g : grp (a, b);",
    "use ieee.std_logic_1164.all, work.p.all;",
    "for all : comp use entity work.e(rtl);",
]
SNIPPET_STMTS = [
    "u0 : entity work.x generic map (n => 3) port map (a => b, c => d);",
    "s <= f(a, g(b)) after 1 ns;",
    "p0 : process (a, b) is begin if (a = '1') then s <= b; elsif b = '0' then s <= a; else null; end if; end process p0;",
    "g0 : if (a = 1) generate s <= a; end generate g0;",
    "g0 : for i in 0 to 3 generate s(i) <= a; end generate g0;",
    "process is begin case (a) is when 1 | 2 => null; when others => null; end case; wait on a, b until (c = '1') for 1 ns; end process;",
    'assert (a = b) report "x" severity note;',
    'with (sel) select s <= a when "00", b when others;',
    "s <= a when (b = '1') else c;",
    "s <= a'image(b);",
    "p(a, b);",
    "b0 : block (clk = '1') is begin s <= guarded a; end block b0;",
    "process is begin for i in 0 to 3 loop exit when i = 2; next; end loop; while a loop null; end loop; end process;",
    'process is variable v : integer := 0; begin v := f(1, 2); report "x" & integer\'image(3); return; end process;',
]
# sources that END inside a comma-separated list (nothing raw is left behind the cursor): the comma loops of the classifier re-read
# their start position and make progress only while unclassified tokens are left (see DESIGN 1.3a); 'for,,' made
# instantiation_list.classify spin for ever before the repair
TAIL_HEADS = ["attribute keep of", "for", "signal", "use", "group g : grp (", "variable", "constant", "file", "alias x is y [", "type t is (", "library", "disconnect"]
TAIL_STMT_HEADS = ["process (", "wait on", "p : process begin wait on", "s <= f(", "u0 : x port map (", "with s select t <=", "assert x report", "s <= a when b else"]
TAIL_ENDS = [",,", " ,,", " a,,", " a, ,", " ,", " a,", " a , ,", " a,, : c", ",,\n", " a,,\n", " a,,\n\n", " a, b,,", ",,,"]


def tail_sources():
    out = []
    for h in TAIL_HEADS:
        for e in TAIL_ENDS:
            out.append("architecture rtl of e is\n" + h + e)
    for h in TAIL_STMT_HEADS:
        for e in TAIL_ENDS:
            out.append("architecture rtl of e is\nbegin\n" + h + e)
    return out


_TOK = re.compile(r"<<|>>|:=|<=|=>|/=|>=|\*\*|\"[^\"]*\"|'.'|[A-Za-z_][A-Za-z_0-9.]*|\d+|\S")


def snippet_jobs():
    out = []
    for kind, lst in (("decl", SNIPPET_DECLS), ("stmt", SNIPPET_STMTS)):
        for k, txt in enumerate(lst):
            n = len(_TOK.findall(txt))
            out.append((kind, k, n))
    n = len(tail_sources())
    for k in range(0, n, 13):
        out.append(("tail", k, min(13, n - k)))
    return out


def snippet_case(job):
    """all single-token deletions and truncations of one snippet: list of (description, kind, reason)"""
    kind, k, n = job
    from vsg import vhdlFile
    from vsg.exceptions import ClassifyError

    if kind == "tail":
        out = []
        signal.signal(signal.SIGALRM, _alarm)
        for src in tail_sources()[k : k + n]:
            what = "source ending in %r" % src[len("architecture rtl of e is\n") :]
            signal.alarm(LIMIT)
            try:
                try:
                    vhdlFile.vhdlFile(src.split("\n"), sFilename="snippet.vhd")
                    out.append((what, "accepted", None))
                except ClassifyError as e:
                    msg = getattr(e, "message", str(e))
                    out.append((what, "rejected", None) if re.search(r"Line \d+", msg) else (what, "unlocated", "ClassifyError without a line number: %r" % msg[:120]))
                except Hang:
                    out.append((what, "hang", "classification did not terminate within %d s" % LIMIT))
                except RecursionError as e:
                    out.append((what, "crash", "RecursionError at %s" % site(e.__traceback__)))
                except Exception as e:
                    out.append((what, "crash", "%s at %s" % (type(e).__name__, site(e.__traceback__))))
            finally:
                signal.alarm(0)
        return out
    txt = (SNIPPET_DECLS if kind == "decl" else SNIPPET_STMTS)[k]
    toks = _TOK.findall(txt)
    out = []
    signal.signal(signal.SIGALRM, _alarm)
    for i in range(len(toks)):
        for mode in ("delete", "truncate"):
            t2 = toks[:i] + toks[i + 1 :] if mode == "delete" else toks[:i]
            body = " ".join(t2)
            if mode == "truncate":
                src = "architecture rtl of e is\n" + (body if kind == "decl" else "begin\n" + body) + "\n"
            else:
                src = "architecture rtl of e is\n" + (body + "\n" if kind == "decl" else "") + "begin\n" + (body + "\n" if kind == "stmt" else "") + "end architecture rtl;\n"
            what = "%s token %d (%r) of %r" % ("without" if mode == "delete" else "cut in front of", i + 1, toks[i], txt[:60])
            signal.alarm(LIMIT)
            try:
                try:
                    vhdlFile.vhdlFile(src.split("\n"), sFilename="snippet.vhd")
                    out.append((what, "accepted", None))
                except ClassifyError as e:
                    msg = getattr(e, "message", str(e))
                    out.append((what, "rejected", None) if re.search(r"Line \d+", msg) else (what, "unlocated", "ClassifyError without a line number: %r" % msg[:120]))
                except Hang:
                    out.append((what, "hang", "classification did not terminate within %d s" % LIMIT))
                except RecursionError as e:
                    out.append((what, "crash", "RecursionError at %s" % site(e.__traceback__)))
                except Exception as e:
                    out.append((what, "crash", "%s at %s" % (type(e).__name__, site(e.__traceback__))))
            finally:
                signal.alarm(0)
    return out
