# -*- coding: utf-8 -*-
"""Corpus for the bounded stand-ins: the repository's own VHDL fixtures (tests/**/*.vhd).
Everything here runs the REAL code of /repo (vsg is an editable install of /repo)."""
import glob
import os
import random
from concurrent.futures import ProcessPoolExecutor

REPO = os.environ.get("VSG_REPO", "/repo")


def corpus_files():
    fs = sorted(glob.glob(os.path.join(REPO, "tests", "**", "*.vhd"), recursive=True))
    return fs


def sample(n, seed, files=None):
    files = files if files is not None else corpus_files()
    if n >= len(files):
        return list(files)
    r = random.Random(seed)
    return sorted(r.sample(files, n))


def read_lines(path):
    from vsg.vhdlFile import utils

    lines, err = utils.read_vhdlfile(path)
    return lines


def parse(path, lines=None):
    """returns vhdlFile object or None if VSG rejects the file"""
    from vsg import vhdlFile
    from vsg.exceptions import ClassifyError

    if lines is None:
        lines = read_lines(path)
    try:
        return vhdlFile.vhdlFile(lines, sFilename=path)
    except ClassifyError:
        return None


def pmap(fn, items, workers=None, chunksize=4):
    workers = workers or min(16, os.cpu_count() or 4)
    if not items:
        return []
    with ProcessPoolExecutor(max_workers=workers) as ex:
        return list(ex.map(fn, items, chunksize=chunksize))
