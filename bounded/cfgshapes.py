# -*- coding: utf-8 -*-
"""C19 'under any valid configuration': shapes of the per-file sections that VSG accepts (file_list / file_rules as lists of
plain names, one-key mappings, mappings with several keys, entries without a rule section, globs), run through the real CLI on
several files.  Oracle: the run terminates without a traceback, with exit status 0 or 1, and says something about every file."""
import json
import os
import shutil
import subprocess
import tempfile

GOOD = "entity %s is\nend entity %s;\n"
RULE = {"rule": {"entity_008": {"disable": True}}}

SHAPES = {
    "file_rules_two_keys_in_one_item": {"file_rules": [{"a.vhd": RULE, "b.vhd": RULE}]},
    "file_rules_three_items": {"file_rules": [{"a.vhd": RULE}, {"b.vhd": RULE}, {"c.vhd": RULE}]},
    "file_rules_item_without_rule_section": {"file_rules": [{"a.vhd": {}}, {"b.vhd": RULE}]},
    "file_rules_mixed_keys": {"file_rules": [{"a.vhd": RULE}, {"b.vhd": RULE, "c.vhd": RULE}]},
    "file_list_names_and_mappings": {"file_list": ["a.vhd", {"b.vhd": RULE}, "c.vhd"]},
    "file_list_glob_and_mapping": {"file_list": ["*.vhd", {"b.vhd": RULE}]},
    "file_list_and_file_rules": {"file_list": ["a.vhd", {"b.vhd": RULE}], "file_rules": [{"c.vhd": RULE, "a.vhd": RULE}]},
    "rule_section_plus_file_rules": {"rule": {"entity_008": {"disable": False}}, "file_rules": [{"c.vhd": RULE}, {"a.vhd": RULE, "b.vhd": RULE}]},
}


def one(name):
    d = tempfile.mkdtemp(prefix="c19s_")
    try:
        for f in ("a", "b", "c"):
            open(os.path.join(d, f + ".vhd"), "w").write(GOOD % (f, f))
        cfg = SHAPES[name]
        json.dump(cfg, open(os.path.join(d, "cfg.json"), "w"))
        cmd = ["/venv/bin/vsg", "-c", "cfg.json", "-p", "1", "-of", "syntastic"]
        if "file_list" not in cfg:
            cmd += ["-f", "a.vhd", "b.vhd", "c.vhd"]
        try:
            p = subprocess.run(cmd, cwd=d, capture_output=True, text=True, timeout=180)
        except subprocess.TimeoutExpired:
            return (name, "hang", "vsg did not terminate within 180 s under configuration shape %s" % name)
        out = p.stdout + p.stderr
        if "Traceback" in out:
            last = out.strip().split("\n")[-1]
            import re

            fr = [m for m in re.findall(r'File "[^"]*/vsg/([^"]+)", line \d+, in (\w+)', out) if m[0] != "__main__.py"]
            return (name, "crash", "configuration shape %s: %s at %s" % (name, last.split(":")[0], "%s:%s" % fr[-1] if fr else "?"))
        if p.returncode not in (0, 1):
            return (name, "status", "configuration shape %s: exit status %d" % (name, p.returncode))
        return (name, "ok", None)
    finally:
        shutil.rmtree(d, ignore_errors=True)
