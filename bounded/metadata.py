# -*- coding: utf-8 -*-
"""Finite instantiation over the real rule objects of the current tree (exact, not sampled: the set of rule
constructors is finite): side conditions the effect contracts rely on, and C03's 'documented as' clause."""
import glob
import os
import re


def check_all():
    from vsg import parser, rule_list, severity
    import importlib

    vf = importlib.import_module("vsg.vhdlFile.vhdlFile")
    oFile = vf.vhdlFile([""])
    oRules = rule_list.rule_list(oFile, severity.create_list({}))
    rules = [o for o in oRules.rules if not o.deprecated]
    probs = []
    blank = (parser.whitespace, parser.carriage_return, parser.blank_line)
    # documented phase / group per rule from docs/*_rules.rst
    docs = {}
    root = os.environ.get("VSG_REPO", "/repo")
    for p in glob.glob(os.path.join(root, "docs", "*_rules.rst")):
        txt = open(p, encoding="utf-8").read()
        for m in re.finditer(r"^(\w+_\d{3})\n#+\n\n(.*?)\n\n", txt, re.M | re.S):
            icons = re.findall(r"\|(\w+)\|", m.group(2))
            ph = [i for i in icons if i.startswith("phase_")]
            docs[m.group(1)] = {"phase": int(ph[0][6:]) if ph else None, "icons": icons}
    group_phase = {"whitespace": 2, "blank_line": 3, "indent": 4, "alignment": 5, "case": 6, "naming": 7, "length": 7}
    n_checked = 0
    for o in rules:
        n_checked += 1
        rid = o.unique_id
        bases = [c.__module__ for c in type(o).__mro__]
        wbt = importlib.import_module("vsg.rules.whitespace_between_tokens").Rule
        if isinstance(o, wbt) and type(o)._get_tokens_of_interest is wbt._get_tokens_of_interest and type(o)._fix_violation is wbt._fix_violation:
            for t in (o.left_token, o.right_token):
                if t is None or issubclass(t, blank):
                    probs.append((rid, "whitespace_between_tokens rule with a white-space class as left/right token: %r" % (t,)))
        if "vsg.rules.token_indent" in bases:
            for t in o.lTokens:
                if issubclass(t, blank):
                    probs.append((rid, "token_indent rule lists a white-space class"))
        if "vsg.rules.token_case" in bases:
            if o.remap is not False or o.phase != 6:
                probs.append((rid, "token_case rule with remap=%r phase=%r" % (o.remap, o.phase)))
        if o.phase == 7 and o.fixable:
            probs.append((rid, "phase 7 rule is marked fixable"))
        if any(g.startswith("length") for g in o.groups) and o.fixable:
            probs.append((rid, "length rule is marked fixable"))
        main = [g.split("::")[0] for g in o.groups]
        d = docs.get(rid)
        if d is None:
            probs.append((rid, "rule is not documented in docs/*_rules.rst"))
        else:
            if d["phase"] != o.phase:
                probs.append((rid, "documented as phase %r, runs in phase %r" % (d["phase"], o.phase)))
            if o.phase in (2, 3, 4, 5) and "structure" in d["icons"] and not any(g.startswith("structure") for g in o.groups):
                probs.append((rid, "documented as a structure rule but not in the structure group"))
        if o.remap is False and o.phase != 6 and o.fixable and type(o)._fix_violation is not __import__("vsg.rule", fromlist=["Rule"]).Rule._fix_violation:
            probs.append((rid, "remap=False on a rule outside the case phase that has its own fix"))
    return n_checked, probs
