# -*- coding: utf-8 -*-
"""Bounded stand-in for C12: layered configurations through the real configuration path
(config.New with several -c files -> apply_rules.configure_rules) against the documented precedence
per-file(file_rules) > per-file(file_list) > rule id > group > global > default."""
import json
import os
import random
import shutil
import tempfile

LEVELS = ["global", "group", "rule", "file_list", "file_rules"]


def scenario(seed):
    from vsg import apply_rules, config, rule_list, severity
    from vsg.exceptions import ConfigurationError
    import importlib

    vf = importlib.import_module("vsg.vhdlFile.vhdlFile")
    r = random.Random(seed)
    probs = []
    d = tempfile.mkdtemp(prefix="c12_")
    try:
        # the file is named the same way in the configuration and on the command line; the spelling need not be normalised
        os.mkdir(os.path.join(d, "sub"))
        spelling = r.choice(["a.vhd", "a.vhd", "./a.vhd", "/a.vhd", "sub/../a.vhd"])
        fname = (d + "/" + spelling).replace(os.sep, "/")
        open(os.path.join(d, "a.vhd"), "w").write("entity e is\nend entity e;\n")
        oFile = vf.vhdlFile(["entity e is", "end entity e;"], sFilename=fname)
        probe = rule_list.rule_list(oFile, severity.create_list({}))
        cands = [o for o in probe.rules if not o.deprecated and o.groups]
        target = r.choice(cands)
        attr = r.choice(["disable", "fixable", "indent_size", "phase", "severity"] + [x for x in target.configuration if x not in ("indent_style", "indent_size", "phase", "disable", "fixable", "severity", "user_error_message")][:2])
        default = getattr(target, attr)

        def val(level):
            k = LEVELS.index(level)
            if attr in ("disable", "fixable"):
                return bool((k + seed) % 2)
            if attr in ("indent_size", "phase"):
                return 1 + k
            if attr == "severity":
                return ["Warning", "Error", "Guideline", "Warning", "Guideline"][k]
            if isinstance(default, bool):
                return bool((k + seed) % 2)
            if isinstance(default, int):
                return 10 + k
            return None

        used = [l for l in LEVELS if r.random() < 0.5 and val(l) is not None]
        group = r.choice(target.groups)
        cfg1, cfg2 = {"rule": {}}, {"rule": {}}
        cfg1["severity"] = {"Guideline": {"type": "warning"}}
        # the same level may be set in two -c files: the later file wins
        later = {}
        for l in used:
            v = val(l)
            def other(x):
                return (not x) if isinstance(x, bool) else (x + 20 if isinstance(x, int) else ("Error" if x != "Error" else "Warning"))

            if l == "global":
                cfg1["rule"]["global"] = {attr: v}
                if r.random() < 0.3:
                    cfg2["rule"]["global"] = {attr: other(v)}
                    later["global"] = other(v)
            elif l == "group":
                cfg1["rule"]["group"] = {group: {attr: v}}
                if r.random() < 0.5:
                    # the same group attribute in a later configuration file: the later file wins
                    cfg2["rule"]["group"] = {group: {attr: other(v)}}
                    later["group"] = other(v)
            elif l == "rule":
                cfg1["rule"][target.unique_id] = {attr: v}
                if r.random() < 0.4 and attr != "severity":
                    v2 = (not v) if isinstance(v, bool) else v + 20
                    cfg2["rule"][target.unique_id] = {attr: v2}
                    later["rule"] = v2
            elif l == "file_list":
                cfg1["file_list"] = [{fname: {"rule": {target.unique_id: {attr: v}}}}]
            elif l == "file_rules":
                cfg1["file_rules"] = [{fname: {"rule": {target.unique_id: {attr: v}}}}]
        if "file_list" not in cfg1:
            cfg1["file_list"] = [fname]
        p1, p2 = os.path.join(d, "c1.json"), os.path.join(d, "c2.json")
        json.dump(cfg1, open(p1, "w"))
        json.dump(cfg2, open(p2, "w"))
        cla = vf.command_line_args()
        cla.style = None
        cla.configuration = [p1, p2]
        cla.junit = None
        cla.skip_phase = []
        oConfig = config.New(cla)
        oRules = rule_list.rule_list(oFile, oConfig.severity_list)
        try:
            apply_rules.configure_rules(oConfig, oRules, oConfig.dConfig, 0, fname)
        except Exception as e:  # noqa
            return (seed, ["configuring %s.%s at levels %r raised %s: %s" % (target.unique_id, attr, used, type(e).__name__, e)], {"rule": target.unique_id, "attr": attr, "levels": used})
        o = [x for x in oRules.rules if x.unique_id == target.unique_id][0]
        # expected value: highest-priority level that sets it and is applicable
        exp = default.name if attr == "severity" else default
        for l in LEVELS:
            if l not in used:
                continue
            if l == "global" and attr != "severity" and attr not in o.configuration:
                continue
            exp = later.get(l, val(l))
        got = o.severity.name if attr == "severity" else getattr(o, attr)
        if got != exp:
            probs.append("%s.%s set at levels %r: effective value %r, documented precedence gives %r" % (target.unique_id, attr, used, got, exp))
        # options are what the rule acts on
        for opt in getattr(o, "options", []):
            if opt.name == attr and opt.value != got:
                probs.append("%s.%s: option object holds %r but the attribute is %r" % (target.unique_id, attr, opt.value, got))
        # unknown / deprecated rule names are configuration errors
        for bad, why in (("no_such_rule_123", "unknown rule"), (None, "deprecated rule")):
            if bad is None:
                dep = [x.unique_id for x in probe.rules if x.deprecated]
                if not dep:
                    continue
                bad = r.choice(dep)
            c = config.config()
            c.dConfig = {"rule": {bad: {"disable": True}}}
            c.severity_list = oConfig.severity_list
            rl = rule_list.rule_list(oFile, oConfig.severity_list)
            try:
                rl.configure(c)
                probs.append("%s %s in the configuration is silently ignored" % (why, bad))
            except ConfigurationError:
                pass
            # ... also in a per-file section, which is applied to a rule list the main configuration has been applied to before
            ok = config.config()
            ok.dConfig = {"rule": {target.unique_id: {"disable": False}}}
            ok.severity_list = oConfig.severity_list
            rl = rule_list.rule_list(oFile, oConfig.severity_list)
            try:
                rl.configure(ok)
                rl.configure(c)
                probs.append("%s %s in a configuration applied after a valid one (per-file section) is silently ignored" % (why, bad))
            except ConfigurationError:
                pass
        return (seed, probs, {"rule": target.unique_id, "attr": attr, "levels": used, "file_spelling": spelling})
    finally:
        shutil.rmtree(d, ignore_errors=True)


def alias_case(seed):
    """two -c files; the first is YAML in which several rules share ONE mapping (an anchor and its aliases), the second names one of
    them: only that rule follows the second file, the others keep what the first file says (merging must not write into the earlier
    file's shared mapping)"""
    import importlib

    import yaml

    from vsg import config, rule_list, severity

    vf = importlib.import_module("vsg.vhdlFile.vhdlFile")
    r = random.Random(seed)
    d = tempfile.mkdtemp(prefix="c12a_")
    probs = []
    try:
        oFile = vf.vhdlFile(["entity e is", "end entity e;"], sFilename="a.vhd")
        probe = rule_list.rule_list(oFile, severity.create_list({}))
        ids = [o.unique_id for o in probe.rules if not o.deprecated and o.fixable]
        a, b, c = r.sample(ids, 3)
        shared = {"fixable": False, "severity": "Warning", "indent_size": 3}
        first = {"rule": {a: shared, b: shared, c: shared}}  # PyYAML writes the shared object as &id001 / *id001
        second = {"rule": {a: {"fixable": True, "severity": "Error", "indent_size": 5}}}
        p1, p2 = os.path.join(d, "first.yaml"), os.path.join(d, "second.yaml")
        yaml.safe_dump(first, open(p1, "w"))
        if "*id" not in open(p1).read():
            return (seed, ["the scenario's YAML has no alias"], {})
        yaml.safe_dump(second, open(p2, "w"))
        cla = vf.command_line_args()
        cla.style = None
        cla.configuration = [p1, p2]
        cla.junit = None
        oConfig = config.New(cla)
        rl = rule_list.rule_list(oFile, oConfig.severity_list)
        rl.configure(oConfig)
        state = {o.unique_id: (o.fixable, o.severity.name, o.indent_size) for o in rl.rules if o.unique_id in (a, b, c)}
        if state[a] != (True, "Error", 5):
            probs.append("%s is named by the later file but is configured %r" % (a, state[a]))
        for x in (b, c):
            if state[x] != (False, "Warning", 3):
                probs.append("%s is only named by the first file (through a YAML alias shared with %s) but is configured %r after the later file changed %s" % (x, a, state[x], a))
        return (seed, probs[:2], {"rules": [a, b, c]})
    except Exception as e:  # noqa
        return (seed, ["scenario raised %s: %s" % (type(e).__name__, e)], {})
    finally:
        shutil.rmtree(d, ignore_errors=True)
