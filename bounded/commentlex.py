# -*- coding: utf-8 -*-
"""An oracle for C02 that does not use VSG's classifier: where do the comments of a VHDL text start?

A small scanner over the raw lines: string literals "..." ("" inside), extended identifiers \\...\\, character literals 'x',
delimited comments /* ... */ (which span lines) and single-line comments -- ... (to the end of the line).  It returns, per line,
the text of the single-line comment that ends the line (or None).  The tick is ambiguous in VHDL (attribute / qualified expression
vs. character literal); `'x'` is taken as a character literal whenever the third character is a tick, which can only mislead the
scanner about a comment if the text contains `'-'-` or the like."""


def line_comments(lines):
    out = []
    in_block = False
    for line in lines:
        i, n = 0, len(line)
        found = None
        while i < n:
            if in_block:
                j = line.find("*/", i)
                if j < 0:
                    i = n
                else:
                    in_block = False
                    i = j + 2
                continue
            c = line[i]
            if c == "-" and line.startswith("--", i):
                found = line[i:]
                break
            if c == "/" and line.startswith("/*", i):
                in_block = True
                i += 2
                continue
            if c == '"':
                j = i + 1
                while j < n:
                    if line[j] == '"':
                        if j + 1 < n and line[j + 1] == '"':
                            j += 2
                            continue
                        break
                    j += 1
                i = j + 1
                continue
            if c == "\\":
                j = line.find("\\", i + 1)
                i = n if j < 0 else j + 1
                continue
            if c == "'" and i + 2 < n and line[i + 2] == "'":
                i += 3
                continue
            i += 1
        out.append(found)
    return out


def parser_line_comments(lAllObjects):
    """the same from VSG's model: per line, the value of the parser.comment token that ends it (or None)"""
    from vsg import parser

    out = []
    cur = None
    for o in lAllObjects:
        if isinstance(o, parser.carriage_return):
            out.append(cur)
            cur = None
        elif (isinstance(o, parser.comment) or type(o).__module__ == "vsg.token.pragma") and o.get_value().startswith("--"):
            cur = o.get_value()
    return out


def compare(lines, lAllObjects):
    """first disagreement between the scanner and the parser about the single-line comments of the text, or None"""
    a = [None if c is None else c.rstrip() for c in line_comments(lines)]
    b = [None if c is None else c.rstrip() for c in parser_line_comments(lAllObjects)]
    # the model starts with a beginning-of-file line
    if len(b) == len(a) + 1:
        b = b[1:]
    for k, (x, y) in enumerate(zip(a, b)):
        if x != y:
            return "line %d: the text has the comment %r, the parsed model has %r" % (k + 1, x, y)
    return None
