# -*- coding: utf-8 -*-
"""Plans, runs (16 processes) and caches the instrumented fix runs of bounded/pipeline.py.

Universe (finite, independent of VERIF_SEED): every corpus file x {default, jcl, upper} plus two input variants per
file (preprocessor lines + blank lines, inserted comments), both derived from the file path only.  The thorough tier
runs the whole universe, the quick tier a VERIF_SEED-seeded sample of it; so a finding listed for the universe is
listed for every quick sample.  Results are cached under /verif/.cache keyed by a hash of /repo/vsg (rebuilt
whenever the tree under verification changes)."""
import hashlib
import json
import os
import random
import tempfile

from bounded import corpus, pipeline

VERIF = os.path.dirname(os.path.dirname(os.path.abspath(__file__)))
PIDS = ("C01", "C02", "C03", "C06", "C07", "C08", "C09", "C10", "C18", "C19")


def tree_hash():
    """hash of everything that affects EVERY job: the code under test and the instrumentation (not the inputs, not the
    configurations, not the list of jobs: those are part of each job's own key)"""
    h = hashlib.sha1()
    root = os.path.join(corpus.REPO, "vsg")
    for d, dirs, files in sorted(os.walk(root)):
        dirs.sort()
        if "__pycache__" in d:
            continue
        for f in sorted(files):
            if f.endswith((".py", ".yaml")):
                p = os.path.join(d, f)
                h.update(p.encode())
                with open(p, "rb") as fh:
                    h.update(fh.read())
    for f in ("pipeline.py", "monitor.py", "../contracts/fixes.py", "../contracts/vhdlfile.py", "../contracts/tags.py", "../pyvc/concrete.py"):
        with open(os.path.join(VERIF, "bounded", f), "rb") as fh:
            h.update(fh.read())
    return h.hexdigest()[:16]


def job_key(job):
    """hash of one job's own inputs: the text it runs on, the configuration dictionary, the skip list"""
    from bounded import configs, designs, docconfigs, variants

    path, cfg, variant = job
    h = hashlib.sha1(json.dumps(job).encode())
    if path.startswith("gen:"):
        h.update(designs.all_designs()[path[4:]].encode())
    else:
        with open(path, "rb") as fh:
            h.update(fh.read())
    if variant:
        with open(variants.__file__, "rb") as fh:
            h.update(fh.read())
    c = docconfigs.harvest(corpus.REPO)[cfg] if cfg.startswith("doc:") else configs.CONFIGS[cfg]
    h.update(json.dumps(c, sort_keys=True, default=str).encode())
    h.update(json.dumps(configs.SKIPS.get(cfg, [])).encode())
    return h.hexdigest()[:20]


def universe():
    files = corpus.corpus_files()
    jobs = []
    for f in files:
        for cfg in ("default", "jcl", "upper"):
            jobs.append((f, cfg, ""))
        jobs.append((f, "default", "pre"))
        jobs.append((f, "default", "comments"))
    from bounded import designs

    for name in sorted(designs.all_designs()):
        for cfg in ("default", "jcl", "endlabels"):
            jobs.append(("gen:" + name, cfg, ""))
    for name in ("tight_spacing", "comments_between", "enum_chars"):
        for cfg in ("spaces_gt0", "spaces_ge0", "spaces_0plus"):
            jobs.append(("gen:" + name, cfg, ""))
    # option values and skip lists: every generated design, and a fixed slice of the corpus
    for name in sorted(designs.all_designs()):
        for cfg in ("align_a", "align_b", "smart_tabs", "skip1", "caseonly"):
            jobs.append(("gen:" + name, cfg, ""))
    for f in files[::9]:
        for cfg in ("align_a", "skip1", "caseonly"):
            jobs.append((f, cfg, ""))
    for name in sorted(designs.all_designs()):
        jobs.append(("gen:" + name, "use_indent", ""))
    # one rule group switched off at a time: every generated design, and a slice of the corpus
    from bounded import configs as _cfgs

    for g in _cfgs.GROUPS:
        for name in sorted(designs.all_designs()):
            jobs.append(("gen:" + name, "nogrp:" + g, ""))
    for i, f in enumerate(files[::7]):
        jobs.append((f, "nogrp:" + _cfgs.GROUPS[i % len(_cfgs.GROUPS)], ""))
    # the configurations the documentation shows (every YAML/JSON configuration block of docs/*.rst): all generated designs,
    # and a fixed slice of the corpus
    from bounded import docconfigs

    docs = sorted(docconfigs.harvest(corpus.REPO))
    for cfg in docs:
        for name in sorted(designs.all_designs()):
            jobs.append(("gen:" + name, cfg, ""))
    for i, f in enumerate(files[::23]):
        jobs.append((f, docs[i % len(docs)], ""))
    for f in files:
        jobs.append((f, "default", "split"))
    return jobs


def plan(tier, seed):
    uni = universe()
    if tier == "thorough":
        return uni
    r = random.Random(seed)
    by = {}
    for j in uni:
        by.setdefault((j[1], j[2]), []).append(j)
    out = []
    for key, n in ((("default", ""), 110), (("jcl", ""), 14), (("upper", ""), 14), (("default", "pre"), 24), (("default", "comments"), 24), (("default", "split"), 24), (("align_a", ""), 8), (("skip1", ""), 8), (("caseonly", ""), 8)):
        out.extend(r.sample([j for j in by[key] if not j[0].startswith("gen:")], n))
    # generated designs: all of them under the hand-written configurations; under the documented configurations a seeded six each (two for each documented option value)
    gen = [j for j in uni if j[0].startswith("gen:")]
    out.extend(j for j in gen if not j[1].startswith("doc:"))
    bydoc = {}
    for j in gen:
        if j[1].startswith("doc:"):
            bydoc.setdefault(j[1], []).append(j)
    for cfg in sorted(bydoc):
        if cfg.startswith("doc:rulepage:"):
            out.extend(bydoc[cfg])  # the few values the rule pages name: every design
        else:
            out.extend(r.sample(bydoc[cfg], 2 if cfg.startswith(("doc:values:", "doc:code:")) else 6))
    out.extend(r.sample([j for j in uni if j[1].startswith("doc:") and not j[0].startswith("gen:")], 12))
    return sorted(out)


def run_job(job):
    path, cfg, variant = job
    from bounded import variants

    tmp = None
    src = path
    try:
        if path.startswith("gen:"):
            from bounded import designs

            fd, tmp = tempfile.mkstemp(suffix=".vhd", prefix="gen_")
            with os.fdopen(fd, "w", encoding="utf-8") as fh:
                fh.write(designs.all_designs()[path[4:]])
            src = tmp
        if variant:
            lines = variants.make(path, variant)
            if lines is None:
                return (job, None, {"skipped": "variant not applicable"})
            fd, tmp = tempfile.mkstemp(suffix=".vhd", prefix="var_")
            with os.fdopen(fd, "w", encoding="utf-8") as fh:
                fh.write("\n".join(lines) + "\n")
            src = tmp
        probs, stats = pipeline.fix_run((src, cfg, {}))
        if not variant:
            import zlib

            p2, s2 = pipeline.check_run((src, cfg, {"seed": zlib.crc32(path.encode())}))
            for k, v in p2.items():
                probs.setdefault(k, []).extend(v)
            stats["check_violations"] = s2.get("violations", 0)
        stats["file"] = path if path.startswith("gen:") else os.path.relpath(path, corpus.REPO)
        stats["variant"] = variant
        if path.startswith("gen:nested") and stats.get("final_lines"):
            from bounded import designs

            m = designs.end_names_match(stats["final_lines"])
            if m:
                probs.setdefault("C01", []).append(("", "name after 'end' does not match: " + m))
        stats.pop("final_lines", None)
        return (job, {k: v for k, v in probs.items() if v}, stats)
    except Exception as e:  # checker fault inside the worker must not look like a verdict
        return (job, None, {"error": repr(e)})
    finally:
        if tmp:
            try:
                os.remove(tmp)
            except OSError:
                pass


def run_all(tier, seed, use_cache=True):
    """results of the jobs of this tier; every job's result is cached under (tree_hash, job_key), so adding inputs or
    configurations to the universe costs only the new jobs.  returns (results, fraction of jobs taken from the cache == 1.0)"""
    jobs = plan(tier, seed)
    th = tree_hash()
    cdir = os.path.join(VERIF, ".cache")
    cpath = os.path.join(cdir, "jobs_%s.json" % th)
    store = {}
    if use_cache and os.path.exists(cpath):
        try:
            os.utime(cpath, None)
            with open(cpath) as fh:
                store = json.load(fh)
        except Exception:
            store = {}
    keys = [job_key(j) for j in jobs]
    todo = [(j, k) for j, k in zip(jobs, keys) if k not in store]
    if todo:
        res = corpus.pmap(run_job, [j for j, k in todo], chunksize=1)
        for (job, probs, stats), (j, k) in zip(res, todo):
            store[k] = {"job": [job[0] if job[0].startswith("gen:") else os.path.relpath(job[0], corpus.REPO), job[1], job[2]], "probs": probs, "stats": stats}
        os.makedirs(cdir, exist_ok=True)
        # keep the caches of the three most recently used trees (the unchanged tree survives a few runs on changed ones)
        olds = sorted((f for f in os.listdir(cdir) if (f.startswith("jobs_") or f.startswith("pipeline_")) and f != "jobs_%s.json" % th), key=lambda f: os.path.getmtime(os.path.join(cdir, f)), reverse=True)
        for f in olds[2:]:
            os.remove(os.path.join(cdir, f))
        tmp = cpath + ".%d.tmp" % os.getpid()
        with open(tmp, "w") as fh:
            json.dump(store, fh)
        os.replace(tmp, cpath)
    return [store[k] for k in keys], not todo


def findings(results, pid):
    out = []
    for r in results:
        if not r["probs"]:
            continue
        for rid, msg in r["probs"].get(pid, []):
            out.append({"rule": rid, "file": r["job"][0], "config": r["job"][1], "variant": r["job"][2], "message": msg})
    return out
