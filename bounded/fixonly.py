# -*- coding: utf-8 -*-
"""Bounded stand-in for the --fix_only contracts (C20): contracts/rule.py evaluated by CPython on the real
Rule._filter_out_fix_only_violations and Rule.fix, with real rule / violation objects and seeded
fix_only dictionaries (unsorted, repeated, missing keys, 'all')."""
import importlib.util
import os
import random

from pyvc import concrete


def load_contracts():
    spec = importlib.util.spec_from_file_location("c_rule", os.path.join(os.path.dirname(os.path.dirname(os.path.abspath(__file__))), "contracts", "rule.py"))
    cm = importlib.util.module_from_spec(spec)
    spec.loader.exec_module(cm)
    return cm


class FakeFile(object):
    def __init__(self, g):
        self.g = g

    def update(self, lUpdates, bRemap):
        self.g["oplog"].append("U")
        self.g["updated"] = list(lUpdates)


def gen_fixonly(r, uid):
    k = r.random()
    if k < 0.15:
        return None
    if k < 0.22:
        return {}
    if k < 0.28:
        return {"fix": {}}
    rules = {}
    for name in r.sample(["r_001", "r_002", uid, "other_010"], r.randint(0, 3)):
        n = r.randint(0, 5)
        lines = [r.randint(1, 6) for _ in range(n)]  # unsorted, repeated on purpose
        if r.random() < 0.2:
            lines.insert(r.randint(0, len(lines)), "all")
        rules[name] = lines
    return {"fix": {"rule": rules}}


def one(seed):
    from vsg import rule, violation

    cm = load_contracts()
    r = random.Random(seed)
    out = []
    g = {"oplog": [], "fixlog": [], "nerr": 0}
    vocab = concrete.hom_vocab(cm.HOMS, g)

    class R(rule.Rule):
        def analyze(self, oFile):
            g["oplog"].append("A:" + self.unique_id)
            self.violations = list(self._plan)
            if self.severity.type == "error":
                g["nerr"] += len(self.violations)

        def _fix_violation(self, oViolation):
            g["fixlog"].append(oViolation)

    def make():
        o = R()
        o.unique_id = r.choice(["r_001", "r_002", "zz_500"])
        o.fixable = r.random() < 0.8
        o.had_violations = r.random() < 0.2
        lines = [r.randint(1, 6) for _ in range(r.randint(0, 6))]
        if r.random() < 0.6:
            lines.sort()
        o._plan = [violation.New(l, None, "s") for l in lines]
        o.violations = list(o._plan) if r.random() < 0.8 else []
        return o

    # 1. the filter
    o = make()
    d = gen_fixonly(r, o.unique_id)
    ct = cm.CONTRACTS["vsg.rule.Rule._filter_out_fix_only_violations"]
    res = concrete.check_call("vsg.rule.Rule._filter_out_fix_only_violations", ct, {"self": o, "dFixOnly": d}, vocab)
    if res.status in ("post-fail", "raised"):
        out.append(("filter", res.detail, {"unique_id": o.unique_id, "violation_lines": [v.iLine for v in o._plan], "dFixOnly": d}))
    # 2. Rule.fix
    o = make()
    d = gen_fixonly(r, o.unique_id)
    g["oplog"][:] = []
    g["fixlog"][:] = []
    ct = dict(cm.CONTRACTS["vsg.rule.Rule.fix"])
    res = concrete.check_call("vsg.rule.Rule.fix", ct, {"self": o, "oFile": FakeFile(g), "dFixOnly": d}, vocab)
    if res.status in ("post-fail", "raised"):
        out.append(("fix", res.detail, {"unique_id": o.unique_id, "violation_lines": [v.iLine for v in o._plan], "dFixOnly": d, "fixable": o.fixable}))
    elif o.fixable:
        # what reached update() is what was fixed, in reverse order, ascending and duplicate-free when the analysis was
        fixed = [v for v in g["fixlog"]]
        upd = g.get("updated", [])
        if fixed != upd[::-1]:
            out.append(("fix", "violations fixed %r are not the reverse of those passed to update %r" % ([v.iLine for v in fixed], [v.iLine for v in upd]), {"dFixOnly": d}))
        plan_ids = [id(v) for v in o._plan]
        pos = [plan_ids.index(id(v)) for v in upd]
        if pos != sorted(set(pos)):
            out.append(("fix", "update() received the violations out of analysis order or repeated: positions %r" % pos, {"unique_id": o.unique_id, "violation_lines": [v.iLine for v in o._plan], "dFixOnly": d}))
    return (seed, out)
