# -*- coding: utf-8 -*-
"""Bounded stand-in for C05: the role (token class) of every code token is unchanged under meaning-preserving
re-layouts of an accepted corpus file: whitespace resize, line split/join at whitespace, comment insertion, case
change outside literals.  Re-layouts are derived from the token list VSG itself produced for the file (C04)."""
import hashlib
import random

from bounded import corpus, pipeline


def roles(oFile, K):
    out = []
    for t in oFile.lAllObjects:
        if pipeline.kind_of(t, K) == "code":
            v = t.get_value()
            out.append((v if v[:1] in ("'", '"', "\\") else v.lower(), type(t).__module__ + "." + type(t).__name__))
    return out


_DELIM = ("(", ")", ",", ";", ":", ":=", "<=", "=>")


def _word(v):
    return v != "" and all(c.isalnum() or c == "_" for c in v) and not v[0].isdigit()


def _separable(a, b):
    """a delimiter next to a plain word or to a parenthesis (numbers, literals, ticks and dots are left alone: VSG's tokens are finer
    than VHDL's lexical elements there, and white space inside a lexical element would change the text's meaning)"""
    return (a in _DELIM and (_word(b) or b in ("(", ")"))) or (b in _DELIM and (_word(a) or a in ("(", ")")))


def relayout(oFile, K, kind, r):
    """returns list of lines"""
    toks = oFile.lAllObjects
    kinds = [pipeline.kind_of(t, K) for t in toks]
    vals = [t.get_value() for t in toks]
    out = []
    n = len(toks)
    in_pragma_block = False
    for i in range(n):
        k, v = kinds[i], vals[i]
        if kind == "ws" and k == "ws":
            v = " " * r.randint(1, 3) if (i > 0 and kinds[i - 1] != "cr") else " " * r.randint(0, 6)
        elif kind == "case" and k == "code" and v[:1] not in ("'", '"', "\\") and any(c.isalpha() for c in v):
            m = r.random()
            v = v.upper() if m < 0.4 else v.lower() if m < 0.8 else v.swapcase()
        elif kind == "split" and k == "ws" and i > 0 and kinds[i - 1] == "code" and i + 1 < n and kinds[i + 1] == "code" and r.random() < 0.08:
            v = "\n" + " " * r.randint(0, 4)
        elif kind == "join" and k == "cr" and 0 < i < n - 1 and kinds[i - 1] == "code" and r.random() < 0.15:
            # next line must start (after optional whitespace) with a code token
            j = i + 1
            if j < n and kinds[j] == "ws":
                j += 1
            if j < n and kinds[j] == "code":
                v = " "
        elif kind == "comment" and k == "cr" and i > 0 and kinds[i - 1] in ("code",) and r.random() < 0.12:
            v = r.choice([" -- added", "--x", "  -- added; end if; begin"]) + "\n"
        elif kind == "comment" and k == "cr" and i > 0 and kinds[i - 1] == "cr" and r.random() < 0.1:
            v = "-- own line\n\n"
        elif kind == "pragma" and k == "ws" and i > 0 and kinds[i - 1] == "code" and i + 1 < n and kinds[i + 1] == "code" and r.random() < 0.1:
            # an own-line comment that looks like a tool directive, between two tokens of one statement
            v = "\n" + " " * r.randint(0, 4) + r.choice(["-- xilinx workaround", "-- altera only", "-- synopsys translate_off", "-- pragma coverage_off", "-- synthesis translate_on"]) + "\n" + " " * r.randint(0, 4)
        elif kind == "pragma" and k == "code" and v == "(" and i + 1 < n and kinds[i + 1] == "code" and r.random() < 0.3:
            v = "(\n-- pragma keep\n"
        elif kind == "sep" and k == "code" and i > 0 and kinds[i - 1] == "code" and _separable(vals[i - 1], v) and r.random() < 0.5:
            # two code tokens written without white space, one of them a delimiter: white space (sometimes a line break, sometimes a
            # comment and a line break) may stand between any two lexical elements
            m = r.random()
            v = (" " * r.randint(1, 2) if m < 0.7 else "\n" + " " * r.randint(0, 4) if m < 0.85 else " -- sep\n" + " " * r.randint(0, 4)) + v
        out.append("\n" if (k == "cr" and v == vals[i]) else v)
    text = "".join(out)
    lines = text.split("\n")
    if lines and lines[-1] == "":
        lines.pop()
    return lines


def one(path):
    K = pipeline.kinds()
    o = corpus.parse(path)
    if o is None:
        return (path, "rejected", None)
    base = roles(o, K)
    seed = int(hashlib.sha1(path.split("/tests/")[-1].encode()).hexdigest()[:8], 16)
    probs = []
    for kind in ("ws", "case", "split", "join", "comment", "pragma", "sep"):
        r = random.Random(seed)
        lines = relayout(o, K, kind, r)
        try:
            o2 = corpus.parse(path, lines)
        except Exception as e:  # noqa
            probs.append((kind, "re-layout raises %r" % (e,)))
            continue
        if o2 is None:
            probs.append((kind, "re-layout of an accepted file is rejected"))
            continue
        r2 = roles(o2, K)
        if [x[0] for x in r2] != [x[0] for x in base]:
            probs.append((kind, "checker: re-layout changed the code tokens themselves"))
            continue
        for i, (a, b) in enumerate(zip(base, r2)):
            if a[1] != b[1]:
                probs.append((kind, "token %d %r: role %s becomes %s (context %r)" % (i, a[0], a[1].replace("vsg.token.", ""), b[1].replace("vsg.token.", ""), " ".join(x[0] for x in base[max(0, i - 4) : i + 3]))))
                break
    return (path, "ok", probs)
