# -*- coding: utf-8 -*-
"""Input variants of corpus files (derived from the file path only, so that they are the same in every tier):
 pre      : '#ifdef' / '#endif' preprocessor lines followed by blank lines, before seeded lines
 comments : comments appended to line ends and inserted on their own lines (incl. pragma-like and delimited)
 split    : lines broken in front of an operator or an opening parenthesis, the continuation starting at column 0 or indented"""
import hashlib
import random

from bounded import corpus


def _rng(path, kind):
    return random.Random(int(hashlib.sha1((path.split("/tests/")[-1] + kind).encode()).hexdigest()[:12], 16))


def make(path, kind):
    lines = corpus.read_lines(path)
    if len(lines) < 4 or len(lines) > 1500:
        return None
    r = _rng(path, kind)
    out = list(lines)
    if kind == "pre":
        for k in range(r.randint(1, 3)):
            i = r.randint(1, len(out))
            blanks = [""] * r.randint(0, 3)
            out[i:i] = ["#ifdef SIM_%d" % k] + blanks[:1] + ["#endif"] + blanks
        return out
    if kind == "comments":
        n = max(1, len(out) // 12)
        for k in range(n):
            i = r.randint(0, len(out) - 1)
            how = r.random()
            if "--" in out[i] or '"' in out[i] or "/*" in out[i] or "*/" in out[i] or out[i].lstrip().startswith("#"):
                continue
            if how < 0.5 and out[i].strip():
                out[i] = out[i] + r.choice([" -- c%d" % k, "--c%d" % k, "  -- keep; this := that"])
            else:
                out.insert(i, r.choice(["-- own line comment %d" % k, "    --indented comment", "-- synthesis translate_off", "-- synthesis translate_on"]))
        return out
    if kind == "split":
        import re

        n = 0
        res = []
        for l in out:
            code = l.split("--")[0]
            if n < max(2, len(out) // 10) and '"' not in l and "'" not in code.replace("'0'", "").replace("'1'", "") and not l.lstrip().startswith("#") and "/*" not in l and "*/" not in l:
                m = None
                for mm in re.finditer(r"(?<=\w) (&|and|or|\+|-) (?=\w)|(?<=\w) ?(\() ?(?=\w)", code):
                    if r.random() < 0.5:
                        m = mm
                        break
                if m is not None and code.strip() and not code.lstrip().lower().startswith(("end", "library", "use")):
                    ind = r.choice(["", "", "    "])
                    res.append(l[: m.start()])
                    res.append(ind + l[m.start() :].lstrip())
                    n += 1
                    continue
            res.append(l)
        return res if n else None
    return None
