# -*- coding: utf-8 -*-
"""Generated micro designs (part of the finite universe of bounded/runner.py, names 'gen:<name>'):
inputs the fixture corpus does not contain but the properties quantify over — single labelled statements with
stray whitespace, nested statements of one kind without end labels (depth 1-4), enumerations of character literals,
comments between the tokens that line-joining rules move."""
import re

HEAD = "library ieee;\nuse ieee.std_logic_1164.all;\n\nentity e is\n  port (\n    a : in std_logic;\n    b : out std_logic\n  );\nend entity e;\n\narchitecture rtl of e is\n\n"


def nested(kind, depth, labelled_end=False):
    body = []
    ind = "  "
    opens = {
        "block": lambda n, i: "%s%s : block is\n%sbegin" % (ind * i, n, ind * i),
        "for_generate": lambda n, i: "%s%s : for i%d in 0 to 1 generate" % (ind * i, n, i),
        "if_generate": lambda n, i: "%s%s : if true generate" % (ind * i, n),
    }
    closes = {"block": "end block", "for_generate": "end generate", "if_generate": "end generate"}
    names = ["%s_l%d" % (kind[:3], i) for i in range(depth)]
    for i, n in enumerate(names):
        body.append(opens[kind](n, i + 1))
    body.append("%sb <= a;" % (ind * (depth + 1)))
    for i in reversed(range(depth)):
        body.append("%s%s%s;" % (ind * (i + 1), closes[kind], (" " + names[i]) if labelled_end else ""))
    return HEAD + "begin\n\n" + "\n".join(body) + "\n\nend architecture rtl;\n", names


def nested_loops(depth):
    ind = "  "
    names = ["lp_l%d" % i for i in range(depth)]
    body = ["  p_main : process (a) is\n  begin"]
    for i, n in enumerate(names):
        body.append("%s%s : for i%d in 0 to 1 loop" % (ind * (i + 2), n, i))
    body.append("%snull;" % (ind * (depth + 2)))
    for i in reversed(range(depth)):
        body.append("%send loop;" % (ind * (i + 2)))
    # an unlabelled loop after the labelled nest
    body.append("    for k in 0 to 1 loop\n      null;\n    end loop;")
    body.append("  end process p_main;")
    return HEAD + "begin\n\n" + "\n".join(body) + "\n\nend architecture rtl;\n", names


def single_labelled(kind):
    stmts = {
        "conc_proc_call": "  call_label :     wr_en(a, b);",
        "conc_assign": "  asg_label :    b <= a;",
        "seq_proc_call": "  p1 : process (a) is\n  begin\n    call_label :     wr_en(a, b);\n  end process p1;",
        "seq_report": "  p1 : process (a) is\n  begin\n    rep_label :     report \"x\";\n  end process p1;",
        "seq_case": "  p1 : process (a) is\n  begin\n    case_label :    case a is\n      when others =>\n        null;\n    end case;\n  end process p1;",
    }
    return HEAD + "  procedure wr_en (signal x : in std_logic; signal y : out std_logic) is\n  begin\n  end procedure wr_en;\n\nbegin\n\n" + stmts[kind] + "\n\nend architecture rtl;\n"


def enum_chars():
    return HEAD + "  type mvl is ('U', 'X', '0', '1', 'Z');\n  type STATE is (IDLE, 'A', Run);\n  constant C : string := \"MiXed\";\n  signal \\Ext Id\\ : std_logic;\n\nbegin\n\n  b <= a when a = 'X' else 'Z';\n\nend architecture rtl;\n"


def comments_between():
    return (
        HEAD
        + "  signal s : std_logic; -- trailing\n\nbegin\n\n  with a -- why\n    select b <=\n      '0' when '0', -- zero\n      '1' when others;\n\n  p1 : process (a) -- sens\n  is\n  begin\n    if a = '1' -- cond\n    then\n      null;\n    end if;\n  end process p1;\n\n  u1 : entity work.x -- inst\n    port map (\n      a => a, -- first\n      b => open\n    );\n\nend architecture rtl;\n"
    )


def blank_in_multiline():
    return (
        HEAD
        + "  constant c_vec : std_logic_vector(3 downto 0) :=\n    a &\n\n    a &\n    a & a;\n\n  signal s1 : std_logic;\n\nbegin\n\n  s1 <= a and\n\n        a and\n        a;\n\n  p1 : process (a) is\n  begin\n    b <= a or\n\n         a or\n         a;\n  end process p1;\n\nend architecture rtl;\n"
    )


def tight_spacing():
    """tokens that white-space rules look at, written with no space between them and with several spaces"""
    return (
        "library ieee;\nuse ieee.std_logic_1164.all;\n\nentity e is\n  generic(\n    g_w:integer:=8\n  );\n  port(\n    a:in std_logic;\n    b   :   out    std_logic:='0'\n  );\nend entity e;\n\narchitecture rtl of e is\n\n"
        + "  signal wr_en_q:std_logic;\n  signal   s2   :   std_logic_vector(3 downto 0):=(others=>'0');\n  constant c_i:integer:=3;\n\nbegin\n\n  b<=a;\n  wr_en_q <='1' when a='1' else'0';\n\n"
        + "  p1:process(a)is\n    variable v:integer:=0;\n  begin\n    if(a='1')then\n      v:=v+1;\n      s2(0)<=a;\n    end if;\n  end process p1;\n\nend architecture rtl;\n"
    )


def case_align():
    """a case statement whose alternatives have assignment targets of different lengths, an if and a loop around assignments"""
    return (
        HEAD
        + "  signal x, xyz_long_name, q, ab : std_logic;\n\nbegin\n\n  p1 : process (a) is\n  begin\n    case a is\n      when '0' =>\n        x <= '1';\n        xyz_long_name <= '0';\n      when others =>\n        q <= '1';\n        ab <= '0';\n    end case;\n"
        + "    if a = '1' then\n      x <= '0';\n      xyz_long_name <= '1';\n    end if;\n    for i in 0 to 1 loop\n      q <= '0';\n      ab <= '1';\n    end loop;\n  end process p1;\n\nend architecture rtl;\n"
    )


def linestart_ops():
    """continuation lines that begin with an operator or a parenthesis, at column 0 and indented; trailing white space"""
    return (
        HEAD
        + "  signal s1, s2 : std_logic;  \n  signal v : std_logic_vector(1 downto 0);\n\nbegin\n\n  s1 <= a\n&a;\n  s2 <= a\n    and a\n    or a;\n  v <= a\n  &s1;\n\n  u1 : entity work.x\n    port map\n    ( a => a\n    , b => open\n    );   \n\n  p1 : process (a) is\n  begin\n    s1 <= a\n+a;\n  end process p1;\n\nend architecture rtl;\n"
    )


def mixed_case_names():
    """library / use names, keywords and identifiers written in upper and mixed case, a use clause without library clause"""
    return (
        "LIBRARY IEEE;\nUSE IEEE.STD_LOGIC_1164.ALL;\nuse IEEE.numeric_std.all;\nuse work.my_pkg.all;\n\nENTITY Mixed IS\n  PORT (\n    A : IN std_logic;\n    B : OUT STD_LOGIC\n  );\nEND ENTITY Mixed;\n\n"
        + "ARCHITECTURE Rtl OF Mixed IS\n\n  SIGNAL Sig_One : STD_LOGIC;\n  CONSTANT C_Val : INTEGER := 16#FF#;\n\nBEGIN\n\n  Sig_One <= A WHEN A = 'X' ELSE 'Z';\n  B <= Sig_One;\n\nEND ARCHITECTURE Rtl;\n"
    )


def dashes_in_literals():
    """two dashes that are NOT a comment (inside a string literal, an extended identifier, a delimited comment) in front of a real
    comment on the same line"""
    return (
        "library ieee;\nuse ieee.std_logic_1164.all;\n\nentity dashes is\n  port (\n    sel : in std_logic_vector(3 downto 0);\n    q : out std_logic\n  );\nend entity dashes;\n\n"
        + "architecture rtl of dashes is\n\n  constant c_dc : std_logic_vector(3 downto 0) := \"1--0\"; -- bits 2:1 are don't care\n"
        + "  constant c_all : std_logic_vector(3 downto 0) := \"----\"; -- nothing matters\n"
        + "  signal \\a--b\\ : std_logic; -- extended identifier with dashes\n\nbegin\n\n"
        + "  /* legacy -- kept for reference */ q <= '1' when sel = c_dc else '0'; -- the only statement\n\n"
        + "  process (sel) is\n  begin\n    report \"---- done ----\"; -- banner\n  end process;\n\nend architecture rtl;\n"
    )


def unindented_tight():
    """lines that start in column 1 and whose second token follows the first without a space"""
    return (
        "library ieee;\nuse ieee.std_logic_1164.all;\n\nentity flat is\nport (\na : in std_logic;\nd : in std_logic;\nq : out std_logic\n);\nend entity flat;\n\n"
        + "architecture rtl of flat is\nsignal s: std_logic;\nbegin\nq<= s;\nprocess (a, d) is\nvariable v: std_logic;\nbegin-- start\nv:= a;\ns<= v and d;\nend process;\nend architecture rtl;\n"
    )


def if_condition_layouts():
    """conditions of if / elsif that do not sit on the line of their keyword, with comments in between and behind them"""
    return (
        "library ieee;\nuse ieee.std_logic_1164.all;\n\nentity conds is\n  port (\n    a : in std_logic;\n    b : in std_logic;\n    q : out std_logic\n  );\nend entity conds;\n\n"
        + "architecture rtl of conds is\n\nbegin\n\n  proc_label : process (a, b) is\n  begin\n\n"
        + "    if a = '1' and   -- a is set\n       b = '0'       -- b is cleared\n    then\n      q <= '1';\n"
        + "    elsif -- comment behind the keyword\n      (b = '0') then\n      q <= '0';\n"
        + "    elsif\n      (a = '0' and b = '1')\n    then\n      q <= 'Z';\n"
        + "    elsif (a = 'Z')   -- already in parentheses\n    then\n      q <= 'X';\n"
        + "    elsif a = 'U' and b = 'U' -- both inputs\n                              -- are checked\n    then\n      q <= 'U';\n    end if;\n\n"
        + "  end process proc_label;\n\nend architecture rtl;\n"
    )


def repeated_on_one_line():
    """one rule has several violations with the same solution text on one line (every report must list each of them)"""
    return (
        "library ieee;\nuse ieee.std_logic_1164.all;\n\nentity rep is\n  port (\n    a, b, c : in std_logic;\n    s1, s2, s3 : in std_logic;\n    q : out std_logic\n  );\nend entity rep;\n\n"
        + "architecture rtl of rep is\n\nbegin\n\n  q <= (a AND b) OR (s1 AND c) OR (s2 AND s3);\n\n  p_x : process (a, b) is\n  begin\n    if (a = '1' AND b = '1' AND c = '1') then\n      null;\n    end if;\n  end process p_x;\n\nend architecture rtl;\n"
    )


def nested_record_names():
    """objects used through nested record elements (obj.a.b is ONE token) with another letter case than their declaration"""
    return (
        "library ieee;\nuse ieee.std_logic_1164.all;\n\nentity recs is\n  port (\n    clk : in std_logic\n  );\nend entity recs;\n\n"
        + "architecture rtl of recs is\n\n  signal Axi_Bus : bus_t;\n  signal plain_sig : std_logic;\n  constant C_Cfg : cfg_t := c_default;\n\nbegin\n\n"
        + "  AXI_BUS.aw.valid <= '1';\n  axi_bus.w.data.low <= PLAIN_SIG;\n  Plain_Sig <= AXI_BUS.b.ready when c_cfg.mode.fast = '1' else '0';\n\n"
        + "  u_sub : entity work.sub\n    port map (\n      addr => AXI_BUS.aw.addr,\n      clk  => clk\n    );\n\nend architecture rtl;\n"
    )


def shadowed_names():
    """a process re-declares a constant / type of the architecture with another letter case and uses it in its own declarative part"""
    return (
        "library ieee;\nuse ieee.std_logic_1164.all;\n\nentity shadow is\n  port (\n    clk : in std_logic\n  );\nend entity shadow;\n\n"
        + "architecture rtl of shadow is\n\n  constant C_WIDTH : integer := 8;\n  subtype WORD_T is integer range 0 to 255;\n  signal sig_a : std_logic;\n\nbegin\n\n"
        + "  proc_shadow : process (clk) is\n\n    constant c_width : integer := 4;\n    constant c_msb : integer := c_width - 1;\n    subtype word_t is integer range 0 to 15;\n    variable v_w : word_t;\n\n  begin\n\n"
        + "    if (clk = '1') then\n      v_w := c_width + c_msb;\n      sig_a <= '0';\n    end if;\n\n  end process proc_shadow;\n\n"
        + "  proc_plain : process (clk) is\n  begin\n\n    sig_a <= '1' when c_Width = 8 else '0';\n\n  end process proc_plain;\n\nend architecture rtl;\n"
    )


def mixed_interface_classes():
    """interface lists whose elements belong to different interface classes (plain, constant, signal, variable, type, function), in an
    order that differs from the order any rule lists those classes in, every line starting in column 0 or mis-indented"""
    return (
        "library ieee;\nuse ieee.std_logic_1164.all;\n\nentity mixed is\ngeneric (\nDEPTH : positive := 16;\n     constant WIDTH : positive := 8;\ntype t_data;\n"
        + " LAST : boolean := true;\nconstant FIRST : boolean := false\n);\nport (\nclk : in std_logic;\n   signal rst : in std_logic;\ndin : in std_logic;\nsignal dout : out std_logic\n);\nend entity mixed;\n\n"
        + "architecture rtl of mixed is\n\nprocedure p (\na : in integer;\n     signal b : in std_logic;\nvariable c : out integer;\n  constant d : in integer;\ne : in integer\n) is\nbegin\nc := a + d + e;\nend procedure p;\n\n"
        + "function f (\nx : integer;\n   constant y : integer;\nz : integer\n) return integer is\nbegin\nreturn x + y + z;\nend function f;\n\nbegin\n\ndout <= din;\n\nend architecture rtl;\n"
    )


def all_designs():
    d = {}
    d["mixed_interface_classes"] = mixed_interface_classes()
    d["shadowed_names"] = shadowed_names()
    d["repeated_on_one_line"] = repeated_on_one_line()
    d["nested_record_names"] = nested_record_names()
    d["if_condition_layouts"] = if_condition_layouts()
    d["dashes_in_literals"] = dashes_in_literals()
    d["unindented_tight"] = unindented_tight()
    d["mixed_case_names"] = mixed_case_names()
    d["tight_spacing"] = tight_spacing()
    d["case_align"] = case_align()
    d["linestart_ops"] = linestart_ops()
    d["blank_in_multiline"] = blank_in_multiline()
    for kind in ("block", "for_generate", "if_generate"):
        for depth in (1, 2, 3, 4):
            d["nested_%s_%d" % (kind, depth)] = nested(kind, depth)[0]
    for depth in (1, 2, 3):
        d["nested_loops_%d" % depth] = nested_loops(depth)[0]
    for k in ("conc_proc_call", "conc_assign", "seq_proc_call", "seq_report", "seq_case"):
        d["single_%s" % k] = single_labelled(k)
    d["enum_chars"] = enum_chars()
    d["comments_between"] = comments_between()
    return d


END_RE = re.compile(r"^\s*end\s+(block|generate|loop)\s*(\w+)?\s*;", re.I)
OPEN_RE = re.compile(r"^\s*(?:(\w+)\s*:\s*)?(block\b|for\s+\w+\s+in\s+.*\bgenerate\b|if\s+.*\bgenerate\b|for\s+\w+\s+in\s+.*\bloop\b)", re.I)


def end_names_match(lines):
    """for the nested designs: the name after 'end block|generate|loop' equals the label of the statement it closes"""
    stack = []
    for i, l in enumerate(lines):
        mo = OPEN_RE.match(l)
        me = END_RE.match(l)
        if me:
            if not stack:
                return "line %d: 'end' without an open statement" % (i + 1)
            lab = stack.pop()
            got = me.group(2)
            if got is not None and (lab is None or got.lower() != lab.lower()):
                return "line %d: %r closes the statement labelled %r" % (i + 1, l.strip(), lab)
        elif mo:
            stack.append(mo.group(1))
    return None
