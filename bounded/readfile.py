# -*- coding: utf-8 -*-
"""Bounded stand-in for the contract of vsg.vhdlFile.utils.read_vhdlfile (nested function + file iteration: outside
the verifier's subset):  result == the text of the file split at LF / CRLF / CR only, line ends removed — in
particular VT, FF, FS/GS/RS, NEL, LS and PS are ordinary characters of a line (a '--' comment owns them)."""
import itertools
import os
import re
import tempfile

ALPH = ["a", "-", "\n", "\r", "\x0b", "\x0c", "\x1c", "\x85", " ", " ", " "]


def spec_lines(text):
    # universal-newline reading: \r\n and \r become \n; a final line without terminator still counts
    t = text.replace("\r\n", "\n").replace("\r", "\n")
    lines = t.split("\n")
    if lines and lines[-1] == "":
        lines.pop()
    return lines


def chunk(args):
    first, maxlen = args
    from vsg.vhdlFile import utils

    d = tempfile.mkdtemp(prefix="rd_")
    p = os.path.join(d, "f.vhd")
    n = 0
    try:
        for k in range(maxlen):
            for tup in itertools.product(ALPH, repeat=k):
                s = first + "".join(tup)
                for enc in ("utf-8", "latin-1"):
                    try:
                        data = s.encode(enc)
                    except UnicodeEncodeError:
                        continue
                    with open(p, "wb") as fh:
                        fh.write(data)
                    try:
                        expect_text = data.decode("utf-8")
                    except UnicodeDecodeError:
                        expect_text = data.decode("ISO-8859-1")
                    n += 1
                    got, err = utils.read_vhdlfile(p)
                    exp = spec_lines(expect_text)
                    if got != exp:
                        return (n, "read_vhdlfile(%r as %s) = %r, the file's lines are %r" % (s, enc, got, exp))
        return (n, None)
    finally:
        try:
            os.remove(p)
            os.rmdir(d)
        except OSError:
            pass


def exhaustive(maxlen, pmap):
    res = pmap(chunk, [(c, maxlen) for c in ALPH], chunksize=1)
    total = sum(r[0] for r in res)
    bad = [r[1] for r in res if r[1]]
    return total, (bad[0] if bad else None)
