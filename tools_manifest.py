#!/venv/bin/python
"""Regenerates MANIFEST.json from props/*.py metadata (META dicts) so that it stays valid."""
import importlib
import json
import os
import sys

HERE = os.path.dirname(os.path.abspath(__file__))
sys.path.insert(0, HERE)
props = [json.loads(l) for l in open(os.path.join(HERE, "properties.jsonl"))]
NA = json.load(open(os.path.join(HERE, "not_applicable.json")))
checks = []
na = []
for p in props:
    pid = p["id"]
    path = os.path.join(HERE, "props", pid + ".py")
    if os.path.exists(path):
        meta = importlib.import_module("props." + pid).META
        checks.append(
            {
                "property_id": pid,
                "quick_cmd": "./check %s --tier quick" % pid,
                "thorough_cmd": "./check %s --tier thorough" % pid,
                "evidence_file": "/verif/evidence/%s.json" % pid,
                "replay_cmd_template": "./check %s --replay {path}" % pid,
                "engine": "pyvc",
                "level_claimed": {"category": meta["level"], "text": meta["text"], "design_ref": meta.get("design_ref", "DESIGN.md section 3, " + pid)},
                "level_note": meta["note"],
                "technique": meta["technique"],
            }
        )
    else:
        na.append({"property_id": pid, "reason": NA.get(pid, "check not built yet (build in progress; see DESIGN.md section 8)")})
m = {
    "version": 1,
    "setup_cmd": "./setup.sh",
    "hooks": {
        "guard": "VSG_VERIF",
        "enable": "no hooks in /repo: contracts are sidecar files under /verif/contracts; the real source under /repo/vsg is re-read (ast) and re-imported on every run",
        "baseline_off_cmd": "cd /repo && /venv/bin/python -m pytest -q -p no:cacheprovider --timeout=900",
        "source_commits": [],
        "add_only": True,
    },
    "engines": [
        {
            "name": "pyvc",
            "path": "/verif/pyvc",
            "serves_properties": [c["property_id"] for c in checks],
            "kind_free_text": "contract-based deductive verifier for a Python subset: sidecar contracts (/verif/contracts) + symbolic execution of the real ASTs of /repo/vsg -> SMT-LIB obligations -> cvc5 / z3 portfolio; same contract text evaluated concretely on the real functions for replay and bounded stand-ins",
        }
    ],
    "checks": checks,
    "notes": "See DESIGN.md. Every evidence file separates obligations discharged deductively from bounded stand-ins (coverage.bounded), which are never counted as proved.",
    "not_applicable": na,
}
json.dump(m, open(os.path.join(HERE, "MANIFEST.json"), "w"), indent=1)
print("checks:", [c["property_id"] for c in checks], "not_applicable:", len(na))
