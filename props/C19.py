# -*- coding: utf-8 -*-
"""C19 — Every accepted file can be checked and fixed without a crash or a hang."""
from props import _pipeline
from pyvc.checklib import Check
from pyvc.engine import Engine

META = {
    "level": "other",
    "technique": "runtime evaluation of the effect contracts of DESIGN 3.0 at the choke points of the real code (Rule.fix, Rule.analyze, vhdlFile.update, rule_list.fix) over a finite universe of inputs: a bounded stand-in, not a proof",
    "text": "BOUNDED ONLY for this property at present: " + _pipeline.WHAT["C19"] + ". The quantifier over all inputs and all ~960 rule bodies is not discharged deductively; see DESIGN.md for which kernel functions of the mechanism are under contract.",
    "note": "Universe: repository fixtures x 3 configurations + 2 input variants + generated micro designs. Known findings of the unchanged tree are listed in known_findings.json by (rule, file, configuration, variant).",
}

DEDUCTIVE = ['vsg.vhdlFile.vhdlFile.vhdlFile.update', 'vsg.vhdlFile.vhdlFile.remove_beginning_of_file_tokens', 'vsg.rules.token_case.token_case._fix_violation', 'vsg.rules.whitespace_between_tokens.Rule._fix_violation', 'vsg.rules.token_indent.token_indent._fix_violation', 'vsg.rule.Rule._filter_out_fix_only_violations', 'vsg.vhdlFile.vhdlFile.split_on_carriage_return', 'vsg.vhdlFile.vhdlFile.vhdlFile.get_lines']


def run():
    c = Check("C19", "other")
    c.engine = Engine()
    c.deductive(sorted(q for q in c.engine.contracts if q.startswith("vsg.tokens.")) + DEDUCTIVE)
    _pipeline.pipeline_part(c, "C19")
    return c.finish({"explanation": META["text"]})
