# -*- coding: utf-8 -*-
"""C19 — Every accepted file can be checked and fixed without a crash or a hang."""
from props import _pipeline
from pyvc.checklib import Check, run_selftest
from pyvc.engine import Engine

META = _pipeline.meta('C19',  "Rejected files: seeded malformed variants of corpus files through the real parser and CLI (located message, exit status 1, no traceback, no hang); the crash sites of the unchanged tree are listed as known findings. Configuration shapes: every accepted shape of the file_list / file_rules sections through the real CLI.")

PARTS = ['vsg.vhdlFile.classify.%s.detect' % p for p in ('configuration_declarative_part', 'package_body_declarative_part', 'package_declarative_part', 'process_declarative_part', 'process_statement_part', 'sequence_of_statements', 'subprogram_declarative_part', 'subprogram_statement_part')]
DEDUCTIVE = PARTS + ['vsg.apply_rules.apply_rules', 'vsg.vhdlFile.utils.detect_subelement_until', 'vsg.vhdlFile.utils.classify_subelement_until', 'vsg.vhdlFile.utils.object_value_is', 'vsg.vhdlFile.utils.find_next_token', 'vsg.vhdlFile.vhdlFile.vhdlFile.update', 'vsg.vhdlFile.vhdlFile.remove_beginning_of_file_tokens', 'vsg.rules.token_case.token_case._fix_violation', 'vsg.rules.whitespace_between_tokens.Rule._fix_violation', 'vsg.rules.token_indent.token_indent._fix_violation', 'vsg.rule.Rule._filter_out_fix_only_violations', 'vsg.vhdlFile.vhdlFile.split_on_carriage_return', 'vsg.vhdlFile.vhdlFile.vhdlFile.get_lines']


def run():
    c = Check("C19", "other")
    c.engine = Engine()
    # the classifier: generated position contracts (contracts/parser.py) of every function that verifies on the pinned tree
    parser_q = sorted(q for q, ct in c.engine.contracts.items() if ct.get("_file") == "parser.py" and not ct.get("trusted"))
    assumed_q = sorted(q for q, ct in c.engine.contracts.items() if ct.get("_file") == "parser.py" and ct.get("trusted") and ct.get("generated"))
    c.deductive(sorted(set(sorted(q for q in c.engine.contracts if q.startswith("vsg.tokens.")) + DEDUCTIVE + parser_q + _pipeline.fix_bases(c.engine))))
    c.extra["classifier_functions_under_generated_contract"] = len(parser_q)
    c.extra["classifier_functions_with_assumed_shape"] = assumed_q
    c.trusted.append("generated position contract ASSUMED (not verified) for %d functions of vsg/vhdlFile/classify listed in contracts/parser_unverified.json; termination of the recursion between classifiers is not proved (only of their loops)" % len(assumed_q))
    _pipeline.pipeline_part(c, "C19")
    # rejected files: located message, no other exception, no hang (malformed variants of accepted files)
    import os
    import zlib

    from bounded import corpus, reject
    from pyvc.checklib import Finding

    files = corpus.corpus_files() if c.tier == "thorough" else corpus.sample(400, c.seed + 19)
    ks = range(3) if c.tier == "thorough" else range(1)
    jobs = [(f, zlib.crc32(os.path.relpath(f, corpus.REPO).encode()) * 8 + k) for f in files for k in ks]
    res = corpus.pmap(reject.one, jobs, chunksize=8)
    outcome = {}
    for r in res:
        outcome[r[3]] = outcome.get(r[3], 0) + 1
    c.bounded["rejected_files"] = {"evaluations": len(res), "distinct_nontrivial": outcome.get("rejected", 0), "outcomes": outcome, "rule": "seeded malformed variants (stray keyword line, deleted line, deleted delimiter, truncation, duplicated line) of corpus files classified by the real parser under a %d s limit; non-trivial = the variant was rejected" % reject.LIMIT}
    seen = set()
    for path, seed, what, kind, why in res:
        if why is None or (kind, why) in seen:
            continue
        seen.add((kind, why))
        c.findings.append(Finding("bounded", "reject:" + kind, "%s [%s, %s]" % (why, os.path.relpath(path, corpus.REPO), what), {"file": path, "mutation_seed": seed, "mutation": what, "observed": why, "how_to_rerun": "cd /verif && /venv/bin/python -c 'from bounded import reject; print(reject.one((%r, %d)))'" % (path, seed)}, why))
    # construct snippets: every single-token deletion and every truncation
    sn = corpus.pmap(reject.snippet_case, reject.snippet_jobs(), chunksize=1)
    flat = [x for l in sn for x in l]
    oc = {}
    for what, kind, why in flat:
        oc[kind] = oc.get(kind, 0) + 1
    c.bounded["rejected_snippets"] = {"evaluations": len(flat), "distinct_nontrivial": oc.get("rejected", 0), "outcomes": oc, "exhaustive": True, "rule": "34 small valid declarations / statements (parenthesised lists, physical types, external names, maps, loops): every single-token deletion and every truncation, plus 260 sources that end inside a comma-separated list (12 declaration / 8 statement heads x 13 endings such as ',,' or ' a, ,'), classified by the real parser under a %d s limit; non-trivial = rejected with a located message" % reject.LIMIT}
    for what, kind, why in flat:
        if why is None or (kind, why) in seen:
            continue
        seen.add((kind, why))
        c.findings.append(Finding("bounded", "reject:" + kind, "%s [snippet %s]" % (why, what), {"input": what, "observed": why, "how_to_rerun": "cd /verif && /venv/bin/python -c 'from bounded import reject; [print(x) for j in reject.snippet_jobs() for x in reject.snippet_case(j) if x[2]]'"}, why))
    cfiles = corpus.sample(12 if c.tier == "quick" else 80, c.seed + 119)
    cres = corpus.pmap(reject.cli_case, [(f, c.seed * 100 + i) for i, f in enumerate(cfiles)], chunksize=1)
    c.bounded["rejected_files_cli"] = {"evaluations": len(cres), "distinct_nontrivial": len(cres), "rule": "real CLI on [file with a stray keyword line, good file]: exit status 1, message with a line number, no traceback, terminates"}
    for path, seed, kind, why in cres:
        if why:
            c.findings.append(Finding("bounded", ("reject:" if kind == "crash" else "reject_cli:") + kind, "%s [%s]" % (why, os.path.relpath(path, corpus.REPO)), {"file": path, "scenario_seed": seed, "observed": why}, why))
    if c.tier == "thorough":
        run_selftest(c, ["mutants_parts.py"], lambda eng: PARTS + ['vsg.vhdlFile.utils.detect_subelement_until', 'vsg.vhdlFile.utils.assign_tokens_until_matching_closing_paren', 'vsg.vhdlFile.classify.physical_type_definition.classify', 'vsg.vhdlFile.classify.instantiation_list.classify', 'vsg.vhdlFile.classify.entity_name_list.classify'])
    # valid configuration shapes of the per-file sections through the real CLI
    from bounded import cfgshapes

    sres = corpus.pmap(cfgshapes.one, sorted(cfgshapes.SHAPES), chunksize=1)
    c.bounded["configuration_shapes_cli"] = {"evaluations": len(sres), "distinct_nontrivial": len(sres), "rule": "real CLI on three accepted files under file_list / file_rules sections of every accepted shape (plain names, one-key and several-key mappings, entries without a rule section, globs): terminates, no traceback, exit status 0 or 1"}
    for name, kind, why in sres:
        if why:
            c.findings.append(Finding("bounded", "config_shape:" + kind, why, {"shape": name, "configuration": cfgshapes.SHAPES[name], "observed": why, "how_to_rerun": "cd /verif && /venv/bin/python -c 'from bounded import cfgshapes; print(cfgshapes.one(%r))'" % name}, name))
    return c.finish({"explanation": META["text"]})
