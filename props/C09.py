# -*- coding: utf-8 -*-
"""C09 — Fixing converges."""
from props import _pipeline
from pyvc.checklib import Check
from pyvc.engine import Engine

META = _pipeline.meta('C09')

DEDUCTIVE = ["vsg.rule_list.rule_list.fix", "vsg.vhdlFile.vhdlFile.vhdlFile.fix_blank_lines", "vsg.vhdlFile.vhdlFile.vhdlFile.fix_trailing_whitespace", "vsg.vhdlFile.utils.fix_blank_lines", "vsg.vhdlFile.utils.fix_trailing_whitespace"]


def run():
    c = Check("C09", "other")
    c.engine = Engine()
    if DEDUCTIVE:
        c.deductive(DEDUCTIVE)
    _pipeline.pipeline_part(c, "C09")
    return c.finish({"explanation": META["text"]})
