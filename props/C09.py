# -*- coding: utf-8 -*-
"""C09 — Fixing converges."""
from props import _pipeline
from pyvc.checklib import Check
from pyvc.engine import Engine

META = _pipeline.meta('C09')

DEDUCTIVE = ["vsg.rule_list.rule_list.fix", "vsg.rule_list.enforce_prerequisites", "vsg.rule_list.filter_out_disabled_rules", "vsg.rule_list.rule_list.get_rules_in_phase", "vsg.rule_list.rule_list.get_rules_in_subphase", "vsg.vhdlFile.vhdlFile.vhdlFile.fix_blank_lines", "vsg.vhdlFile.vhdlFile.vhdlFile.fix_trailing_whitespace", "vsg.vhdlFile.utils.fix_blank_lines", "vsg.vhdlFile.utils.fix_trailing_whitespace"]


def run():
    c = Check("C09", "other")
    c.engine = Engine()
    if DEDUCTIVE:
        c.deductive(DEDUCTIVE)
    _pipeline.pipeline_part(c, "C09")
    # the order inside a sub-phase (rules that name prerequisites run behind all others, whatever is disabled or re-assigned) is
    # what makes one pass enough for them: the same stand-in as C13, the contract text on the real rule_list
    from bounded import corpus, gating
    from pyvc.checklib import Finding

    n = 48 if c.tier == "quick" else 600
    res = corpus.pmap(gating.one_scenario, [c.seed * 100000 + 3 * i for i in range(n)], chunksize=2)
    c.bounded["rule_order_scenarios"] = {"evaluations": len(res), "distinct_nontrivial": len({repr(r[2]) for r in res}), "rule": "real rule_list configured through the real configure() with the prerequisites of every rule that names some disabled or moved to another phase / sub-phase; the trace of rule_list.fix compared with the contract's fix_phases (prerequisite holders last in their sub-phase)"}
    for seed, out, info in [r for r in res if r[1]][:1]:
        which, why = out[0]
        c.findings.append(Finding("bounded", "gating:" + which, why, {"scenario_seed": seed, "scenario": info, "observed": why, "how_to_rerun": "cd /verif && /venv/bin/python -c 'from bounded import gating; print(gating.one_scenario(%d))'" % seed}, "seed=%d" % seed))
    return c.finish({"explanation": META["text"]})
