# -*- coding: utf-8 -*-
"""C03 — Each phase only makes the kind of change it is documented to make."""
from props import _pipeline
from pyvc.checklib import Check
from pyvc.engine import Engine

META = _pipeline.meta('C03')

DEDUCTIVE = ['vsg.rules.token_case.token_case._fix_violation', 'vsg.rules.whitespace_between_tokens.Rule._fix_violation', 'vsg.rules.token_indent.token_indent._fix_violation', 'vsg.rule.Rule.fix', 'vsg.rule_list.rule_list.fix', 'vsg.rule_list.filter_out_disabled_rules']


def run():
    c = Check("C03", "other")
    c.engine = Engine()
    c.deductive(sorted(set(DEDUCTIVE + _pipeline.fix_bases(c.engine))), _pipeline.fix_base_search(c.engine, c.seed))
    _pipeline.pipeline_part(c, "C03")
    from bounded import metadata
    from pyvc.checklib import Finding

    n, probs = metadata.check_all()
    probs = [p for p in probs if not p[1].startswith("documented as phase None, runs in phase 0")]
    c.bounded["rule_metadata"] = {"evaluations": n, "distinct_nontrivial": n, "exhaustive": True, "rule": "finite instantiation over every non-deprecated rule object of the tree: documented phase (docs/*_rules.rst) == phase; phase 7 and length rules unfixable; token_case rules phase 6 and remap False; left/right tokens of whitespace_between_tokens rules and lTokens of token_indent rules are never white-space classes (side conditions of the effect contracts); remap=False only on case rules"}
    for rid, why in probs:
        c.findings.append(Finding("bounded", "metadata:" + rid, why, {"rule": rid, "observed": why}, rid))
    return c.finish({"explanation": META["text"]})
