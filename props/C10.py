# -*- coding: utf-8 -*-
"""C10 — A rule that has just fixed a file has nothing left to fix."""
from props import _pipeline
from pyvc.checklib import Check
from pyvc.engine import Engine

META = _pipeline.meta('C10')

DEDUCTIVE = ['vsg.rules.token_case.token_case._fix_violation', 'vsg.rules.whitespace_between_tokens.Rule._fix_violation', 'vsg.rules.token_indent.token_indent._fix_violation', 'vsg.rules.token_indent.token_indent._analyze', 'vsg.rules.whitespace_between_tokens.Rule._analyze', 'vsg.rules.whitespace_between_tokens.Rule.create_violation']


def run():
    c = Check("C10", "other")
    c.engine = Engine()
    c.deductive(sorted(set(DEDUCTIVE + _pipeline.fix_bases(c.engine))), _pipeline.fix_base_search(c.engine, c.seed))
    _pipeline.pipeline_part(c, "C10")
    # the contract of vhdlFile.update on the real method with real token objects (stand-in if update leaves the subset,
    # cross-check otherwise): splice semantics and "index rebuilt from the new list iff bUpdateMap"
    from bounded import corpus, update_contract
    from pyvc.checklib import Finding

    n = 600 if c.tier == "quick" else 20000
    res = corpus.pmap(update_contract.one, [c.seed * 1000000 + i for i in range(n)], chunksize=50)
    c.bounded["update_contract"] = {"evaluations": n, "distinct_nontrivial": n, "rule": "seeded token lists (4-40 real token objects), 0-4 ascending disjoint regions, replacements that keep / grow / shrink / retype / reorder the region, half of the cases with length changes that cancel; every seed is a distinct case"}
    for seed, why in res:
        if why:
            c.findings.append(Finding("bounded", "update_contract", why, {"scenario_seed": seed, "observed": why, "how_to_rerun": "cd /verif && /venv/bin/python -c 'from bounded import update_contract as u; print(u.one(%d))'" % seed}, "seed=%d" % seed))
            break
    return c.finish({"explanation": META["text"]})
