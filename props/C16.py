# -*- coding: utf-8 -*-
"""C16 — Write-back is all-or-nothing and keeps the file's mode."""
import os
import shutil
import subprocess
import sys
import tempfile

from bounded import corpus, faults
from pyvc.checklib import Check, Finding, run_selftest
from pyvc.engine import Engine

META = {
    "level": "proof",
    "technique": "contract-based deductive verification (pyvc, SMT) of write_vhdl_file / create_backup_file against a ghost file system, with the two-state invariant asserted after every statement and on every exceptional edge (crash points, failing OS calls); fault enumeration on the real function validates the model",
    "text": "Proved over the ghost file system, for every combination of failing OS calls (PermissionError, FileNotFoundError, other OSError at stat/open/write/chmod/replace, partial writes) and a process stop after any statement: the target always holds its complete original or the complete fixed text with its original permission bits; only PermissionError is swallowed; the temporary file is gone on every returning or raising path; without any OS error the file holds the fixed text. create_backup_file leaves a faithful copy. The contracts of os.stat/open/write/chmod/replace/remove and shutil.copy2 are assumed (POSIX); the fault-enumeration run replays every modelled path on the real function and real files.",
    "note": "Assumed: POSIX semantics of the external calls (rename atomic; chmod/stat/open as modelled; removing our own temporary file does not fail), a pre-existing user file named <name>.tmp is out of scope, text-mode newline translation is not modelled. 'A file that fails to parse or configure is never modified' is a postcondition of apply_rules (proved: no file-system effect and no fix on the ClassifyError / ConfigurationError / local-rules paths, no file-system effect at all without --fix, and with --fix nothing but the optional backup unless some _fix_violation ran), with the constructors, configure_rules and the report builders as assumed stubs that do not touch the ghost file system; the real CLI is also run on such files as a bounded cross-check. Trusted: pyvc, SMT solvers.",
}

QUALS = ["vsg.apply_rules.write_vhdl_file", "vsg.apply_rules.create_backup_file", "vsg.apply_rules.apply_rules", "vsg.rule_list.rule_list.fix", "vsg.rule.Rule.fix"]

BAD_VHDL = "entity e is\n  port (a : in std_logic\nend entity e;\narchitecture a of e is begin end;;\n"
OK_VHDL = "entity E is\nend entity E;\n"


def _cli(args, cwd):
    return subprocess.run([os.path.join(os.path.dirname(sys.executable), "vsg")] + args, cwd=cwd, capture_output=True, text=True, timeout=600)


def never_modified_on_error(_):
    """a file that fails to parse, or whose configuration is invalid, is never modified by --fix (with and without --backup)"""
    out = []
    d = tempfile.mkdtemp(prefix="c16e_")
    try:
        cases = []
        f1 = os.path.join(d, "bad.vhd")
        open(f1, "w").write(BAD_VHDL)
        cases.append(("parse error", f1, ["-f", f1, "--fix"]))
        cases.append(("parse error + backup", f1, ["-f", f1, "--fix", "--backup"]))
        f2 = os.path.join(d, "ok.vhd")
        open(f2, "w").write(OK_VHDL)
        cfg = os.path.join(d, "c.yaml")
        open(cfg, "w").write("rule:\n  no_such_rule_999:\n    disable: true\n")
        cases.append(("unknown rule in configuration", f2, ["-f", f2, "--fix", "-c", cfg]))
        cfg2 = os.path.join(d, "c2.yaml")
        open(cfg2, "w").write("rule:\n  entity_003:\n    disable: true\n")
        cases.append(("deprecated/renamed rule in configuration", f2, ["-f", f2, "--fix", "-c", cfg2]))
        for name, f, args in cases:
            os.chmod(f, 0o640)
            os.utime(f, ns=(10**18, 10**18))
            b0, st0 = open(f, "rb").read(), os.stat(f)
            p = _cli(args, d)
            st1 = os.stat(f)
            if open(f, "rb").read() != b0 or (st1.st_ino, st1.st_mtime_ns, st1.st_mode) != (st0.st_ino, st0.st_mtime_ns, st0.st_mode):
                if p.returncode != 0 and ("Error" in p.stdout + p.stderr):
                    out.append("%s: file modified although VSG reported an error (rc=%d)" % (name, p.returncode))
            if "Traceback" in p.stderr:
                out.append("%s: traceback" % name)
            if os.path.exists(f + ".tmp"):
                out.append("%s: temporary file left behind" % name)
        return out
    finally:
        shutil.rmtree(d, ignore_errors=True)


def run():
    c = Check("C16", "proof")
    c.engine = Engine()
    c.deductive(QUALS)
    scs = faults.scenarios()
    res = corpus.pmap(faults.run_scenario, scs, chunksize=8)
    bad = [r for r in res if r[1]]
    c.bounded["fault_enumeration"] = {"evaluations": len(res), "distinct_nontrivial": len(res), "exhaustive": True, "rule": "real write_vhdl_file in a forked child on real files: each of the 7 OS-call sites x {PermissionError, FileNotFoundError, OSError(ENOSPC) (partial write for write sites), kill right before, kill right after} x 4 file modes (0600, 0755, 0444, 0644), plus the fault-free run; every scenario is distinct"}
    for sc, problems in bad[:1]:
        c.findings.append(Finding("bounded", "fault:%s:%s%s" % (sc[0], sc[1], ":symlink" if len(sc) > 3 else ""), "call=%s fault=%s mode=%o%s: %s" % (sc[0], sc[1], sc[2], " symlink" if len(sc) > 3 else "", "; ".join(problems)), {"scenario": list(sc), "observed": problems, "how_to_rerun": "cd /verif && /venv/bin/python -c 'from bounded import faults; print(faults.run_scenario(%r))'" % (sc,)}, "/".join([sc[0], sc[1], "%o" % sc[2]] + list(sc[3:]))))
    probs = never_modified_on_error(None)
    c.bounded["never_modified_on_error"] = {"evaluations": 4, "distinct_nontrivial": 4, "rule": "real CLI --fix (with/without --backup) on a file with a syntax error and on a good file with an invalid configuration (unknown rule, deprecated rule): bytes, inode, mtime and mode unchanged"}
    for p in probs[:1]:
        c.findings.append(Finding("bounded", "error-path", p, {"observed": p}, p[:80]))
    bres = corpus.pmap(faults.backup_case, sorted(faults.BACKUP_INPUTS), chunksize=1)
    c.bounded["backup_is_a_copy"] = {"evaluations": 2 * len(bres), "distinct_nontrivial": 2 * len(bres), "rule": "real CLI --fix --backup on files with LF / CRLF / CR line ends, without a final newline, with Latin-1 and multi-byte UTF-8 bytes, with trailing blanks, each with and without a linesep configuration: <file>.bak is byte-identical to the original and keeps its mode"}
    for name, probs2 in bres:
        for p in probs2[:1]:
            c.findings.append(Finding("bounded", "backup", p, {"input": name, "bytes": repr(faults.BACKUP_INPUTS[name]), "observed": p, "how_to_rerun": "cd /verif && /venv/bin/python -c 'from bounded import faults; print(faults.backup_case(%r))'" % name}, name))
    # an obligation that fails without a solver model is replayed by the fault enumeration: attach the scenario
    for f in c.findings:
        if f.kind == "obligation" and not f.found_input and bad:
            f.replay["failing_input"] = {"scenario": list(bad[0][0]), "observed": bad[0][1]}
            f.found_input = True
            f.witness = "/".join([bad[0][0][0], bad[0][0][1], "%o" % bad[0][0][2]] + list(bad[0][0][3:]))
    if c.tier == "thorough":
        run_selftest(c, ["mutants_writeback.py", "mutants_applyrules.py"], lambda eng: QUALS[:3])
    c.trusted += ["assumed contract: %s — %s" % (q, ct["trusted"]) for q, ct in sorted(c.engine.contracts.items()) if ct.get("trusted") and (q.startswith("os.") or q.startswith("builtins.") or q.startswith("shutil."))]
    return c.finish({"explanation": "write_vhdl_file and create_backup_file fully discharged (283+ obligations incl. one crash-point obligation per statement and exceptional edge); fault enumeration is model validation and replay"})
