# -*- coding: utf-8 -*-
"""C18 — The token index and every region of interest mirror the token list."""
from props import _pipeline
from pyvc.checklib import Check
from pyvc.engine import Engine

META = _pipeline.meta('C18')

DEDUCTIVE = ['vsg.vhdlFile.extract.get_tokens_bounded_by.get_tokens_bounded_by', 'vsg.rule_list.rule_list.fix', 'vsg.vhdlFile.vhdlFile.vhdlFile.update_token_map', 'vsg.vhdlFile.vhdlFile.vhdlFile.fix_blank_lines', 'vsg.vhdlFile.vhdlFile.vhdlFile.fix_trailing_whitespace', 'vsg.vhdlFile.extract.utils.get_indexes_of_token_list', 'vsg.vhdlFile.extract.get_tokens_matching.get_tokens_matching', 'vsg.vhdlFile.extract.get_tokens_at_beginning_of_line_matching.get_tokens_at_beginning_of_line_matching', 'vsg.vhdlFile.extract.get_sequence_of_tokens_matching.get_token_indexes', 'vsg.vhdlFile.extract.get_sequence_of_tokens_matching.get_sequence_of_tokens_matching', 'vsg.vhdlFile.vhdlFile.vhdlFile.update', 'vsg.vhdlFile.vhdlFile.remove_beginning_of_file_tokens', 'vsg.vhdlFile.extract.tokens.calculate_end_index', 'vsg.vhdlFile.extract.tokens.New.extract_tokens', 'vsg.rules.token_case.token_case._fix_violation']


def run():
    c = Check("C18", "other")
    c.engine = Engine()
    if DEDUCTIVE:
        c.deductive(DEDUCTIVE)
    _pipeline.pipeline_part(c, "C18")
    # the contract of vhdlFile.update on the real method with real token objects (stand-in if update leaves the subset,
    # cross-check otherwise): splice semantics and "index rebuilt from the new list iff bUpdateMap"
    from bounded import corpus, update_contract
    from pyvc.checklib import Finding

    n = 600 if c.tier == "quick" else 20000
    res = corpus.pmap(update_contract.one, [c.seed * 1000000 + i for i in range(n)], chunksize=50)
    c.bounded["update_contract"] = {"evaluations": n, "distinct_nontrivial": n, "rule": "seeded token lists (4-40 real token objects), 0-4 ascending disjoint regions, replacements that keep / grow / shrink / retype / reorder the region, half of the cases with length changes that cancel; every seed is a distinct case"}
    for seed, why in res:
        if why:
            c.findings.append(Finding("bounded", "update_contract", why, {"scenario_seed": seed, "observed": why, "how_to_rerun": "cd /verif && /venv/bin/python -c 'from bounded import update_contract as u; print(u.one(%d))'" % seed}, "seed=%d" % seed))
            break
    if c.tier == "thorough":
        from pyvc.checklib import run_selftest

        run_selftest(c, ["mutants_extract.py"], lambda eng: [q for q in eng.contracts if q.startswith("vsg.vhdlFile.extract.get_") or q == "vsg.vhdlFile.extract.utils.get_indexes_of_token_list"])
    return c.finish({"explanation": META["text"]})
