# -*- coding: utf-8 -*-
"""C18 — The token index and every region of interest mirror the token list."""
from props import _pipeline
from pyvc.checklib import Check
from pyvc.engine import Engine

META = _pipeline.meta('C18')

DEDUCTIVE = ['vsg.vhdlFile.extract.get_tokens_bounded_by.get_tokens_bounded_by', 'vsg.vhdlFile.extract.get_token_and_n_tokens_before_it.get_token_and_n_tokens_before_it', 'vsg.rule.Rule._filter_out_fix_only_violations', 'vsg.rule.Rule.fix', 'vsg.rule_list.rule_list.fix', 'vsg.vhdlFile.vhdlFile.vhdlFile.update_token_map', 'vsg.vhdlFile.vhdlFile.vhdlFile.fix_blank_lines', 'vsg.vhdlFile.vhdlFile.vhdlFile.fix_trailing_whitespace', 'vsg.vhdlFile.extract.utils.get_indexes_of_token_list', 'vsg.vhdlFile.extract.get_tokens_matching.get_tokens_matching', 'vsg.vhdlFile.extract.get_tokens_at_beginning_of_line_matching.get_tokens_at_beginning_of_line_matching', 'vsg.vhdlFile.extract.get_sequence_of_tokens_matching.get_token_indexes', 'vsg.vhdlFile.extract.get_sequence_of_tokens_matching.get_sequence_of_tokens_matching', 'vsg.vhdlFile.vhdlFile.vhdlFile.update', 'vsg.vhdlFile.vhdlFile.remove_beginning_of_file_tokens', 'vsg.vhdlFile.extract.tokens.calculate_end_index', 'vsg.vhdlFile.extract.tokens.New.extract_tokens', 'vsg.rules.token_case.token_case._fix_violation', 'vsg.vhdlFile.extract.utils.get_indexes_of_token_pairs', 'vsg.vhdlFile.extract.utils.filter_indexes_in_unless_regions', 'vsg.vhdlFile.extract.utils.is_index_between_indexes', 'vsg.vhdlFile.extract.get_tokens_at_beginning_of_line_matching_between_tokens_unless_between_tokens.get_tokens_at_beginning_of_line_matching_between_tokens_unless_between_tokens']


def run():
    c = Check("C18", "other")
    c.engine = Engine()
    if DEDUCTIVE:
        c.deductive(DEDUCTIVE)
    _pipeline.pipeline_part(c, "C18")
    # the contract of vhdlFile.update on the real method with real token objects (stand-in if update leaves the subset,
    # cross-check otherwise): splice semantics and "index rebuilt from the new list iff bUpdateMap"
    from bounded import corpus, update_contract
    from pyvc.checklib import Finding

    # update() applies the violations back to front: that is only safe if Rule.fix hands them over in analysis order, each once --
    # also under --fix_only (the filter's contract; stand-in: the same contract on the real functions with seeded selections)
    from bounded import fixonly

    fres = corpus.pmap(fixonly.one, [c.seed * 100000 + i for i in range(200 if c.tier == "quick" else 3000)], chunksize=25)
    c.bounded["fix_only_order"] = {"evaluations": 2 * len(fres), "distinct_nontrivial": len(fres), "rule": "seeded real Rule objects x seeded --fix_only dictionaries (unsorted and repeated line lists): update() receives the violations in analysis order, each at most once"}
    for seed, out in [x for x in fres if x[1]][:1]:
        which, why, inp = out[0]
        c.findings.append(Finding("bounded", "fix_only:" + which, why, {"scenario_seed": seed, "failing_input": inp, "observed": why}, repr(inp)[:200]))
    n = 600 if c.tier == "quick" else 20000
    res = corpus.pmap(update_contract.one, [c.seed * 1000000 + i for i in range(n)], chunksize=50)
    c.bounded["update_contract"] = {"evaluations": n, "distinct_nontrivial": n, "rule": "seeded token lists (4-40 real token objects), 0-4 ascending disjoint regions, replacements that keep / grow / shrink / retype / reorder the region, half of the cases with length changes that cancel; every seed is a distinct case"}
    for seed, why in res:
        if why:
            c.findings.append(Finding("bounded", "update_contract", why, {"scenario_seed": seed, "observed": why, "how_to_rerun": "cd /verif && /venv/bin/python -c 'from bounded import update_contract as u; print(u.one(%d))'" % seed}, "seed=%d" % seed))
            break
    # a region helper whose default mode no shipped rule reaches (only the rule base token_case_subtype_indication): called directly
    from bounded import helper_regions

    hfiles = sorted(set(f for f in corpus.corpus_files() if "/tests/vhdlFile/" in f) | set(corpus.sample(200 if c.tier == "quick" else 10**6, c.seed + 18)))
    hres = corpus.pmap(helper_regions.one, hfiles, chunksize=4)
    c.bounded["helper_regions"] = {"evaluations": sum(x[1] for x in hres), "distinct_nontrivial": sum(1 for x in hres if x[1]), "rule": "real get_tokens_starting_with_token_and_ending_with_one_of_possible_tokens on corpus files (every classification fixture + a seeded sample) and two comment-inserting re-layouts of each, start / end classes drawn from the file, six flag combinations (all but 'neither bounding token'): every region is lAllObjects[start:start+len] by identity; non-trivial = file with at least one call"}
    for p_, n_, why in hres:
        if why:
            import os

            rel = os.path.relpath(p_, corpus.REPO)
            c.findings.append(Finding("bounded", "helper_regions", "%s: %s" % (rel, why), {"file": p_, "observed": why, "how_to_rerun": "cd /verif && /venv/bin/python -c 'from bounded import helper_regions as h; print(h.one(%r))'" % p_}, "%s: %s" % (rel, why[:120])))
            break
    if c.tier == "thorough":
        from pyvc.checklib import run_selftest

        run_selftest(c, ["mutants_extract.py"], lambda eng: [q for q in eng.contracts if q.startswith("vsg.vhdlFile.extract.get_") or q.startswith("vsg.vhdlFile.extract.utils.")])
    return c.finish({"explanation": META["text"]})
