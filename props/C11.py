# -*- coding: utf-8 -*-
"""C11 — Code tags suppress exactly the tagged rules on exactly the tagged lines."""
import os

from bounded import corpus, tags
from pyvc import concrete
from pyvc.checklib import Check, Finding
from pyvc.concrete import Gen
from pyvc.engine import Engine

META = {
    "level": "other",
    "technique": "contract-based deductive verification (pyvc, SMT) of the suppression decision (has_code_tag, violation.has_code_tag, add_violation, set_code_tags on a token, get_tags); bounded exhaustive check of the tag state machine and a tagged-vs-neutral relational check on corpus files",
    "text": "Proved for all tag lists, regions and rule ids: a token suppresses rule r iff its stamped tags contain 'all' or r; a violation is dropped iff some token of its region does; add_violation appends exactly when not suppressed and touches nothing else. The tag state machine (code_tags.New.update + vhdlFile.set_code_tags, which use list.remove / string splitting outside the verifier's subset) is checked as a labelled bounded stand-in: every sequence of tag events up to a length bound against a set-level reference taken from docs/code_tags.rst, and the property's own relational statement on corpus files.",
    "note": "Not under contract: code_tags.New.update/add/remove, add_code_tags/remove_code_tags, vhdlFile.set_code_tags loop (bounded only). The reference follows the code where the documentation is silent (a bare vsg_on/vsg_off also clears pending next-line tags). Trusted: pyvc, SMT solvers.",
}

QUALS = [
    "vsg.parser.item.has_code_tag",
    "vsg.parser.item.set_code_tags",
    "vsg.violation.New.has_code_tag",
    "vsg.rule.Rule.add_violation",
    "vsg.vhdlFile.code_tags.New.get_tags",
]


def builders():
    def item(gen, size):
        from vsg import parser

        o = parser.item("x")
        o.code_tags = [gen.rng.choice(["all", "a_001", "b_002", "zz"]) for _ in range(gen.rng.randint(0, 3))]
        return o

    return {"vsg.parser.item": item}


class TagGen(Gen):
    def value(self, ty, size):
        if ty.kind == "str":
            return self.rng.choice(["all", "a_001", "b_002", "q_9"])
        return Gen.value(self, ty, size)


def run():
    c = Check("C11", "other")
    c.engine = Engine()
    gen = TagGen("ab", builders(), seed=c.seed)
    cfg = {"vsg.parser.item.has_code_tag": {"gen": gen, "n_search": 2000}}
    c.deductive(QUALS, cfg)
    c.crosscheck(["vsg.parser.item.has_code_tag"], cfg, n=300)
    maxlen = 4 if c.tier == "quick" else 6
    total, why = tags.exhaustive(maxlen, corpus.pmap)
    c.bounded["tag_state_machine"] = {"evaluations": total, "distinct_nontrivial": total, "exhaustive": True, "rule": "every sequence of length <= %d over %d events (bare/id off, on, next-line tags with ':' remarks, line break, code token, plain comment) through the real set_code_tags and has_code_tag, against the set-level reference of docs/code_tags.rst" % (maxlen, len(tags.EVENTS))}
    if why:
        c.findings.append(Finding("bounded", "tag_state_machine", why, {"observed": why}, why[:120]))
    n = 32 if c.tier == "quick" else 600
    files = corpus.sample(n, c.seed + 11)
    res = corpus.pmap(tags.file_case, [(f, c.seed * 1000 + i) for i, f in enumerate(files)], chunksize=1)
    c.bounded["tagged_vs_neutral"] = {"evaluations": len(res), "distinct_nontrivial": len([r for r in res if r[1] == "ok" and r[2]]), "rule": "corpus file with 1-4 seeded off/on/next-line tag comments (rule ids drawn from the file's own violations) vs. the same file with neutral comments of equal length; all rules analysed; non-trivial = accepted and at least one violation reported"}
    for p, st, why in res:
        if st in ("diff", "reject"):
            c.findings.append(Finding("bounded", "tagged_vs_neutral", "%s: %s" % (os.path.relpath(p, corpus.REPO), why), {"file": p, "observed": why}, os.path.relpath(p, corpus.REPO)))
            break
    return c.finish({"explanation": "suppression decision proved deductively; state machine and end-to-end relation bounded (see level text)"})
