# -*- coding: utf-8 -*-
"""C05 — Token classification does not depend on layout, comments or letter case."""
import os

from bounded import corpus, relayout
from pyvc.checklib import Check, Finding, run_selftest
from pyvc.engine import Engine

META = {
    "level": "other",
    "technique": "contract-based deductive verification (pyvc, SMT) of the navigation primitives the classifier is built on (find_next_token skips everything that is not a raw item; keyword tests compare lower-cased values); relational re-layout check of the whole classifier on corpus files as bounded stand-in",
    "text": "Proved for all token lists: find_next_token returns the next raw item at or after its argument and skips only already-classified tokens of whatever kind (so whitespace, comments and line breaks cannot influence it); is_item is an exact-type test; object_value_is compares the lower-cased value with the lower-cased keyword. The 170-module recursive-descent classifier built on these primitives is NOT under contract: the property itself is checked as a labelled bounded stand-in (seven re-layouts of every sampled accepted corpus file and of every classification fixture must be accepted and give every code token the same role).",
    "note": "Bounded part: tests/**/*.vhd, re-layouts derived from the file path (whitespace resize, whitespace inserted next to delimiters, case change outside literals, line split, line join, comment insertion, pragma-like comments). Trusted: pyvc, SMT solvers, class table read from the real classes.",
}

QUALS = [
    "vsg.vhdlFile.utils.find_next_token",
    "vsg.vhdlFile.utils.is_item",
    "vsg.vhdlFile.utils.object_value_is",
    "vsg.vhdlFile.utils.token_is_whitespace_or_comment",
    "vsg.vhdlFile.utils.find_next_non_whitespace_token",
]


def run():
    c = Check("C05", "other")
    c.engine = Engine()
    c.deductive(QUALS)
    n = 300 if c.tier == "quick" else 10**6
    files = corpus.sample(n, c.seed + 5)
    # the classifier's own fixtures (one per production, tests/vhdlFile/*/*.vhd) are in every run, whatever the sample
    files = sorted(set(files) | set(f for f in corpus.corpus_files() if "/tests/vhdlFile/" in f))
    res = corpus.pmap(relayout.one, files, chunksize=4)
    ok = [r for r in res if r[1] == "ok"]
    c.bounded["relayout"] = {"evaluations": 7 * len(ok), "distinct_nontrivial": len(ok), "rejected_originals": len(res) - len(ok), "rule": "accepted corpus file (a seeded sample, plus every fixture of tests/vhdlFile in every run) x 7 path-derived re-layouts (white-space resize, white space / line break / comment put between a delimiter and the word or parenthesis written next to it, case change outside literals, line split, line join, comment insertion, pragma-like own-line comments between tokens); roles (token classes) of all code tokens compared; non-trivial = distinct accepted file"}
    for p, st, probs in res:
        for kind, why in probs or []:
            rel = os.path.relpath(p, corpus.REPO)
            c.findings.append(Finding("bounded", "relayout:" + kind, "%s: %s" % (rel, why), {"file": p, "relayout": kind, "observed": why}, "%s: %s" % (rel, why)))
    # a comment owns its whole line: the reader must not cut lines at VT / FF / NEL / LS (the tail of a comment would be read as code)
    from bounded import readfile

    total, why = readfile.exhaustive(3 if c.tier == "quick" else 5, corpus.pmap)
    c.bounded["read_vhdlfile"] = {"evaluations": total, "distinct_nontrivial": total, "exhaustive": True, "rule": "every short string over line-separator-like characters written as UTF-8 / Latin-1 and read back by the real read_vhdlfile; expected = split at LF/CRLF/CR only"}
    if why:
        c.findings.append(Finding("bounded", "read_vhdlfile", why, {"function": "vsg.vhdlFile.utils.read_vhdlfile", "observed": why}, why[:60]))
    if c.tier == "thorough":
        # the mutants of this file also hit the splice (update) and the region helpers: every verified function of contracts/vhdlfile.py
        run_selftest(c, ["mutants_vhdlfile.py"], lambda eng: sorted(q for q, ct in eng.contracts.items() if ct.get("_file") == "vhdlfile.py" and not ct.get("trusted") and ".classify." not in q))
    return c.finish({"explanation": META["text"]})
