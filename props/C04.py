# -*- coding: utf-8 -*-
"""C04 — Reading a file is lossless and a clean file is never rewritten."""
import os
import shutil
import subprocess
import sys
import tempfile

from bounded import corpus
from pyvc import concrete
from pyvc.checklib import Check, Finding
from pyvc.concrete import Gen

META = {
    "level": "other",
    "technique": "contract-based deductive verification (pyvc: loop invariants + SMT) of vsg/tokens.py for all strings; bounded stand-ins for parse/emit round trip and CLI no-rewrite",
    "text": "Proved for every string, with no length bound: join(tokens.create(s)) == s and the tokenizer raises nothing (all 35 functions of vsg/tokens.py under contract or inlined into a verified caller; obligations regenerated from the real AST on every run). Also proved: get_lines() is the per-line concatenation of the token values (emit loses nothing), whitespace.classify replaces raw items one for one keeping every value, and the driver never writes a file in which nothing was fixed. That parsing classifies every token and keeps every value depends on the 170-module classifier and is checked as a labelled bounded stand-in over the repository's fixture corpus (as is the clean-file clause through the real CLI), hence level 'other' and not 'proof'.",
    "note": "Trusted: pyvc itself, SMT solvers for unsat, uninterpreted str predicates with CPython-validated lemma schemas (pyvc/axioms.py). Clause (c) is a postcondition of the driver apply_rules (proved: without --fix the ghost file system is unchanged; with --fix the file is written exactly when some _fix_violation ran: rule_list.fix sets had_violations iff the fix log grew). Not under contract: vsg/vhdlFile/classify/* (except whitespace.classify), vhdlFile._processFile.",
}

ALPHABET = list("ab1e.'\"\\ (;-*/=?<>x\t:&,")
DELIMS = list("a1e.'\"\\ (-*/=?<x")


def builders():
    def new(gen, size):
        from vsg import tokens

        o = tokens.New("")
        o.lChars = gen.value(concrete.parse_type("list[str]"), size)
        return o

    return {"vsg.tokens.New": new}


def token_quals(eng):
    return sorted(q for q in eng.contracts if q.startswith("vsg.tokens."))


def _create_chunk(args):
    prefix_list, maxlen, alphabet = args
    from vsg import tokens
    import itertools

    n = 0
    for pre in prefix_list:
        for k in range(maxlen):
            for tup in itertools.product(alphabet, repeat=k):
                s = pre + "".join(tup)
                n += 1
                try:
                    r = tokens.create(s)
                except Exception as e:  # noqa
                    return (n, s, "raised %s: %s" % (type(e).__name__, e))
                if "".join(r) != s:
                    return (n, s, "join(create(s)) = %r" % "".join(r))
    return (n, None, None)


def _codepoint_chunk(args):
    lo, hi, step, always = args
    from vsg import tokens

    n = 0
    for cp in range(lo, hi):
        if 0xD800 <= cp <= 0xDFFF:
            continue
        ch = chr(cp)
        if not (always or cp % step == 0 or ch.isspace() or not ch.isprintable()):
            continue
        for s in (ch, "a" + ch + "b", "a " + ch + " b", "--" + ch + "x", '"' + ch + '"', ch + ch):
            n += 1
            try:
                r = tokens.create(s)
            except Exception as e:  # noqa
                return (n, s, "raised %s: %s" % (type(e).__name__, e))
            if "".join(r) != s:
                return (n, s, "join(create(s)) = %r" % "".join(r))
    return (n, None, None)


def codepoint_create(all_points):
    """every Unicode code point (quick tier: every white-space / non-printable code point and every 97th other one) alone, between
    letters, between blanks, in a comment, in a string literal, doubled"""
    jobs = [(lo, min(lo + 0x2000, 0x110000), 97, all_points) for lo in range(0, 0x110000, 0x2000)]
    total = 0
    for n, s, why in corpus.pmap(_codepoint_chunk, jobs, chunksize=2):
        total += n
        if s is not None:
            return total, s, why
    return total, None, None


def exhaustive_create(maxlen):
    # first character partitions the space over the pool; the empty string is added by hand
    jobs = [([c], maxlen, DELIMS) for c in DELIMS]
    res = corpus.pmap(_create_chunk, jobs, chunksize=1)
    total = 1
    from vsg import tokens

    if "".join(tokens.create("")) != "":
        return total, "", "join(create('')) != ''"
    for n, s, why in res:
        total += n
        if s is not None:
            return total, s, why
    return total, None, None


def _roundtrip(path):
    """emit(parse(x)) == x and every token classified"""
    from vsg import parser

    lines = corpus.read_lines(path)
    o = corpus.parse(path, lines)
    if o is None:
        return (path, "rejected", None)
    out = o.get_lines()[1:]
    if out != lines:
        for i, (a, b) in enumerate(zip(out, lines)):
            if a != b:
                return (path, "diff", "line %d: read %r, emitted %r" % (i + 1, b, a))
        return (path, "diff", "line count %d vs %d" % (len(lines), len(out)))
    for i, t in enumerate(o.lAllObjects):
        if type(t) is parser.item:
            return (path, "unclassified", "token %d %r is a raw parser.item" % (i, t.get_value()))
    return (path, "ok", len(o.lAllObjects))


DECOR = ["\ufeff", "\ufeff\ufeff", "\u200b", "\u00a0", "\t", "\x0c", "-- \ufeff", "\ufffe"]


def _roundtrip_decorated(args):
    """the same through the real reader: a copy of the file whose FIRST line starts with a byte order mark / zero-width space /
    no-break space / form feed ...: whatever VSG accepts must be emitted exactly as read (rejecting the file is fine)"""
    path, k = args
    import tempfile

    from vsg.vhdlFile import utils as vutils

    lines = corpus.read_lines(path)
    if not lines:
        return (path, "ok", None)
    d = tempfile.mkdtemp(prefix="c04d_")
    try:
        f = os.path.join(d, "t.vhd")
        with open(f, "w", encoding="utf-8", newline="") as fh:
            fh.write(DECOR[k % len(DECOR)] + "\n".join(lines) + "\n")
        read, err = vutils.read_vhdlfile(f)
        o = corpus.parse(f, read)
        if o is None:
            return (path, "rejected", None)
        out = o.get_lines()[1:]
        if out != read:
            for i, (a, b) in enumerate(zip(out, read)):
                if a != b:
                    return (path, "diff", "first line decorated with %r: line %d read %r, emitted %r" % (DECOR[k % len(DECOR)], i + 1, b[:40], a[:40]))
            return (path, "diff", "first line decorated with %r: line count %d vs %d" % (DECOR[k % len(DECOR)], len(read), len(out)))
        return (path, "ok", None)
    finally:
        shutil.rmtree(d, ignore_errors=True)


def _cli(args, cwd):
    p = subprocess.run([os.path.join(os.path.dirname(sys.executable), "vsg")] + args, cwd=cwd, capture_output=True, text=True, timeout=600)
    return p.returncode, p.stdout, p.stderr


CLEAN_CFG = """rule:
  global:
    disable: true
  group:
    case:
      disable: false
    whitespace:
      disable: false
    indent:
      disable: false
"""


def _no_rewrite(path):
    """(1) a run without --fix never touches the file; (2) --fix on a file with an empty
    all-phases report leaves inode, mtime and bytes untouched."""
    d = tempfile.mkdtemp(prefix="c04_")
    try:
        f = os.path.join(d, "t.vhd")
        shutil.copyfile(path, f)
        cfgp = os.path.join(d, "c.yaml")
        with open(cfgp, "w") as fh:
            fh.write(CLEAN_CFG)
        os.utime(f, ns=(10**18, 10**18))
        st0 = os.stat(f)
        b0 = open(f, "rb").read()
        rc, so, se = _cli(["-f", f, "-ap"], d)
        st1 = os.stat(f)
        if (st1.st_ino, st1.st_mtime_ns) != (st0.st_ino, st0.st_mtime_ns) or open(f, "rb").read() != b0:
            return (path, "check-touched", "a run without --fix modified the file")
        if rc not in (0, 1) or "Traceback" in se:
            return (path, "skip", "cli rc=%s" % rc)
        # make a clean file: fix it (up to 3 times), then require an empty report
        for _ in range(3):
            _cli(["-f", f, "-c", cfgp, "--fix"], d)
        rc, so, se = _cli(["-f", f, "-c", cfgp, "-ap"], d)
        if rc != 0 or "Total Violations:      0" not in so.replace("  ", " ").replace("Total Violations: 0", "Total Violations:      0"):
            import re

            m = re.search(r"Total Violations:\s+(\d+)", so)
            if not m or int(m.group(1)) != 0:
                return (path, "not-clean", None)
        os.utime(f, ns=(10**18, 10**18))
        st0 = os.stat(f)
        b0 = open(f, "rb").read()
        rc, so, se = _cli(["-f", f, "-c", cfgp, "--fix"], d)
        st1 = os.stat(f)
        if open(f, "rb").read() != b0:
            return (path, "clean-changed", "--fix changed the bytes of a file whose all-phases report is empty")
        if (st1.st_ino, st1.st_mtime_ns) != (st0.st_ino, st0.st_mtime_ns):
            return (path, "clean-rewritten", "--fix rewrote (inode/mtime changed) a file whose all-phases report is empty")
        leftovers = [x for x in os.listdir(d) if x not in ("t.vhd", "c.yaml", "b.yaml")]
        if leftovers:
            return (path, "leftover", "files left behind: %r" % leftovers)
        # (3) a file that is clean for the ENABLED rules although it is not normalised: trailing white space and a white-space-only
        # line, with the rule that reports them switched off: nothing is fixable, so nothing may be written
        cfgb = os.path.join(d, "b.yaml")
        with open(cfgb, "w") as fh:
            fh.write(CLEAN_CFG + "  whitespace_001:\n    disable: true\n  whitespace_200:\n    disable: true\n")
        lines = open(f, "rb").read().decode("utf-8").split("\n")
        if len(lines) > 4:
            lines[1] = lines[1] + "  "
            lines[len(lines) // 2] = lines[len(lines) // 2] + " \t"
            with open(f, "wb") as fh:
                fh.write("\n".join(lines).encode("utf-8"))
            rc, so, se = _cli(["-f", f, "-c", cfgb, "-ap"], d)
            import re

            m = re.search(r"Total Violations:\s+(\d+)", so)
            if rc == 0 and m and int(m.group(1)) == 0:
                os.utime(f, ns=(10**18, 10**18))
                st0 = os.stat(f)
                b0 = open(f, "rb").read()
                _cli(["-f", f, "-c", cfgb, "--fix"], d)
                st1 = os.stat(f)
                if open(f, "rb").read() != b0 or (st1.st_ino, st1.st_mtime_ns) != (st0.st_ino, st0.st_mtime_ns):
                    return (path, "clean-rewritten", "--fix rewrote a file with trailing white space whose report is empty (whitespace_001 disabled): nothing was fixable")
        return (path, "ok", None)
    finally:
        shutil.rmtree(d, ignore_errors=True)


def run():
    c = Check("C04", "other")
    gen = Gen(ALPHABET, builders(), seed=c.seed)
    from pyvc.engine import Engine

    c.engine = Engine()
    quals = token_quals(c.engine) + [
        "vsg.vhdlFile.utils.convert_token_list_to_string",
        "vsg.vhdlFile.vhdlFile.split_on_carriage_return",
        "vsg.vhdlFile.vhdlFile.vhdlFile.get_lines",
        "vsg.vhdlFile.classify.whitespace.classify",
        "vsg.vhdlFile.classify.comment.classify_single_line_comment",
        # (c) a clean file is never rewritten: the driver writes exactly when some _fix_violation ran, never without --fix
        "vsg.apply_rules.apply_rules",
        "vsg.rule_list.rule_list.fix",
        "vsg.rule.Rule.fix",
        "vsg.rule_list.rule_list.clear_violations",
    ]
    cfg = {q: {"gen": gen, "also": ["vsg.tokens.create"], "n_search": 3000} for q in quals if q.startswith("vsg.tokens.")}
    c.deductive(quals, cfg)
    c.crosscheck([q for q in quals if q in cfg], cfg, n=150 if c.tier == "quick" else 1500)

    # bounded (a): exhaustive join(create(s)) == s
    maxlen = 5 if c.tier == "quick" else 6
    total, s, why = exhaustive_create(maxlen)
    c.bounded["create_exhaustive"] = {"evaluations": total, "distinct_nontrivial": total, "rule": "every string of length <= %d over the %d-character delimiter alphabet %r" % (maxlen, len(DELIMS), "".join(DELIMS)), "exhaustive": True}
    if s is not None:
        c.findings.append(Finding("bounded", "tokens.create#join", "join(tokens.create(%r)) != input: %s" % (s, why), {"function": "vsg.tokens.create", "failing_input": {"sString": s}, "observed": why}, repr(s)))

    total, s, why = codepoint_create(c.tier == "thorough")
    c.bounded["create_codepoints"] = {"evaluations": total, "distinct_nontrivial": total, "rule": "six strings around every Unicode code point (quick tier: every white-space or non-printable code point and every 97th other one): join(tokens.create(s)) == s, no exception", "exhaustive": c.tier == "thorough"}
    if s is not None:
        c.findings.append(Finding("bounded", "tokens.create#join", "join(tokens.create(%r)) != input: %s" % (s, why), {"function": "vsg.tokens.create", "failing_input": {"sString": s}, "observed": why}, repr(s)))

    # bounded (a'): the file reader splits at LF / CRLF / CR only
    from bounded import readfile

    total, why = readfile.exhaustive(3 if c.tier == "quick" else 5, corpus.pmap)
    c.bounded["read_vhdlfile"] = {"evaluations": total, "distinct_nontrivial": total, "exhaustive": True, "rule": "every string up to the length bound over %r written as UTF-8 and as Latin-1 and read back by the real read_vhdlfile; expected = text split at LF/CRLF/CR only" % "".join(readfile.ALPH)}
    if why:
        c.findings.append(Finding("bounded", "read_vhdlfile", why, {"function": "vsg.vhdlFile.utils.read_vhdlfile", "observed": why}, why[:60]))

    # bounded (b): emit(parse(x)) == x over the corpus
    files = corpus.sample(400 if c.tier == "quick" else 10**6, c.seed)
    res = corpus.pmap(_roundtrip, files)
    ok = [r for r in res if r[1] == "ok"]
    c.bounded["roundtrip"] = {"evaluations": len(res), "distinct_nontrivial": len(ok), "rejected_by_vsg": len([r for r in res if r[1] == "rejected"]), "rule": "corpus file (tests/**/*.vhd, seeded sample) parsed by vhdlFile and emitted by get_lines; non-trivial = accepted by VSG"}
    for p, st, why in res:
        if st in ("diff", "unclassified"):
            c.findings.append(Finding("bounded", "roundtrip:" + st, "%s: %s" % (os.path.relpath(p, corpus.REPO), why), {"file": p, "observed": why}, os.path.relpath(p, corpus.REPO)))
            break

    dfiles = corpus.sample(24 if c.tier == "quick" else 400, c.seed + 404)
    dres = corpus.pmap(_roundtrip_decorated, [(f, i) for i, f in enumerate(dfiles)])
    c.bounded["roundtrip_decorated_first_line"] = {"evaluations": len(dres), "distinct_nontrivial": len([r for r in dres if r[1] == "ok"]), "rule": "corpus file written with its first line prefixed by a byte order mark, a zero-width / no-break space, a tab, a form feed (8 decorations), read by the real read_vhdlfile, parsed and emitted: emitted lines == lines read, for every file VSG accepts"}
    for p, st, why in dres:
        if st == "diff":
            c.findings.append(Finding("bounded", "roundtrip:diff", "%s: %s" % (os.path.relpath(p, corpus.REPO), why), {"file": p, "observed": why}, os.path.relpath(p, corpus.REPO)))
            break

    # bounded (c): no write without need, through the real CLI
    nfiles = 12 if c.tier == "quick" else 120
    cli_files = corpus.sample(nfiles, c.seed + 1)
    res = corpus.pmap(_no_rewrite, cli_files, chunksize=1)
    c.bounded["cli_no_rewrite"] = {"evaluations": len(res), "distinct_nontrivial": len([r for r in res if r[1] == "ok"]), "not_clean_after_3_fixes": len([r for r in res if r[1] == "not-clean"]), "rule": "CLI on a temp copy: plain run must not touch the file; after fixing to an empty all-phases report, --fix must keep inode, mtime and bytes; non-trivial = reached the clean state"}
    for p, st, why in res:
        if st in ("check-touched", "clean-changed", "clean-rewritten", "leftover"):
            c.findings.append(Finding("bounded", "cli:" + st, "%s: %s" % (os.path.relpath(p, corpus.REPO), why), {"file": p, "observed": why}, os.path.relpath(p, corpus.REPO)))
            break

    c.trusted += [
        "J (concatenation of a list of strings) and the str predicates isspace/isdigit/lower are uninterpreted; their lemma schemas (pyvc/lemmas.py) are instantiated on ground terms and validated against CPython by pyvc/axioms.py on every run",
        "str.split returns a list of length >= 1 (CPython contract)",
    ]
    expl = (
        "Decided deductively for ALL strings: join(tokens.create(s)) == s and tokens.py raises nothing — every function of vsg/tokens.py is under contract "
        "(loop invariants in contracts/tokens.py), obligations generated from the real AST on this run and discharged by SMT. "
        "Bounded (labelled, not counted as proved): exhaustive create() over short strings, emit(parse(x))==x with every token classified over the corpus, "
        "and the no-rewrite behaviour through the real CLI. The classifier package (170 modules) is not under contract."
    )
    if c.tier == "thorough":
        from pyvc.checklib import run_selftest

        run_selftest(c, ["mutants_tokens.py"], token_quals)
    return c.finish({"explanation": expl})
