# -*- coding: utf-8 -*-
"""C02 — Comments, pragmas and preprocessor lines survive fixing verbatim."""
from props import _pipeline
from pyvc.checklib import Check, run_selftest
from pyvc.engine import Engine

META = _pipeline.meta('C02')

DEDUCTIVE = ['vsg.vhdlFile.classify.comment.classify_single_line_comment', 'vsg.vhdlFile.utils.remove_trailing_whitespace_and_comments', 'vsg.vhdlFile.utils.remove_leading_whitespace_and_comments', 'vsg.vhdlFile.vhdlFile.vhdlFile.fix_blank_lines', 'vsg.vhdlFile.vhdlFile.vhdlFile.fix_trailing_whitespace', 'vsg.vhdlFile.utils.fix_blank_lines', 'vsg.vhdlFile.utils.fix_trailing_whitespace', 'vsg.rules.token_case.token_case._fix_violation', 'vsg.rules.whitespace_between_tokens.Rule._fix_violation', 'vsg.rules.token_indent.token_indent._fix_violation']


def run():
    c = Check("C02", "other")
    c.engine = Engine()
    c.deductive(sorted(set(DEDUCTIVE + _pipeline.fix_bases(c.engine))), _pipeline.fix_base_search(c.engine, c.seed))
    _pipeline.pipeline_part(c, "C02")
    # a comment owns its whole line: the reader must not cut lines at VT / FF / NEL / LS ... (comments would lose their tail)
    from bounded import corpus, readfile
    from pyvc.checklib import Finding

    total, why = readfile.exhaustive(3 if c.tier == "quick" else 5, corpus.pmap)
    c.bounded["read_vhdlfile"] = {"evaluations": total, "distinct_nontrivial": total, "exhaustive": True, "rule": "every short string over line-separator-like characters written as UTF-8 / Latin-1 and read back by the real read_vhdlfile; expected = split at LF/CRLF/CR only"}
    if why:
        c.findings.append(Finding("bounded", "read_vhdlfile", why, {"function": "vsg.vhdlFile.utils.read_vhdlfile", "observed": why}, why[:60]))
    if c.tier == "thorough":
        run_selftest(c, ["mutants_comment.py"], lambda eng: ["vsg.vhdlFile.classify.comment.classify_single_line_comment"])
    return c.finish({"explanation": META["text"]})
