# -*- coding: utf-8 -*-
"""C07 — A rule's fix touches exactly the lines that rule reported."""
from props import _pipeline
from pyvc.checklib import Check
from pyvc.engine import Engine

META = _pipeline.meta('C07')

DEDUCTIVE = ['vsg.vhdlFile.extract.utils.get_indexes_of_token_list', 'vsg.vhdlFile.extract.get_tokens_matching.get_tokens_matching', 'vsg.vhdlFile.extract.get_tokens_at_beginning_of_line_matching.get_tokens_at_beginning_of_line_matching', 'vsg.vhdlFile.extract.get_sequence_of_tokens_matching.get_token_indexes', 'vsg.vhdlFile.extract.get_sequence_of_tokens_matching.get_sequence_of_tokens_matching', 'vsg.vhdlFile.extract.tokens.New.extract_tokens', 'vsg.vhdlFile.extract.get_token_and_n_tokens_before_it.get_token_and_n_tokens_before_it', 'vsg.rules.whitespace_before_token.extract_toi', 'vsg.rules.whitespace_before_token.Rule._get_tokens_of_interest', 'vsg.vhdlFile.utils.count_carriage_returns', 'vsg.rules.token_case.token_case._fix_violation', 'vsg.rules.whitespace_between_tokens.Rule._fix_violation', 'vsg.rules.token_indent.token_indent._fix_violation', 'vsg.vhdlFile.extract.utils.get_indexes_of_token_pairs', 'vsg.vhdlFile.extract.utils.filter_indexes_in_unless_regions', 'vsg.vhdlFile.extract.utils.is_index_between_indexes', 'vsg.vhdlFile.extract.get_tokens_at_beginning_of_line_matching_between_tokens_unless_between_tokens.get_tokens_at_beginning_of_line_matching_between_tokens_unless_between_tokens']


def run():
    c = Check("C07", "other")
    c.engine = Engine()
    c.deductive(sorted(set(DEDUCTIVE + _pipeline.fix_bases(c.engine))), _pipeline.fix_base_search(c.engine, c.seed))
    _pipeline.pipeline_part(c, "C07")
    return c.finish({"explanation": META["text"]})
