# -*- coding: utf-8 -*-
"""C07 — A rule's fix touches exactly the lines that rule reported."""
from props import _pipeline
from pyvc.checklib import Check
from pyvc.engine import Engine

META = {
    "level": "other",
    "technique": "runtime evaluation of the effect contracts of DESIGN 3.0 at the choke points of the real code (Rule.fix, Rule.analyze, vhdlFile.update, rule_list.fix) over a finite universe of inputs: a bounded stand-in, not a proof",
    "text": "BOUNDED ONLY for this property at present: " + _pipeline.WHAT["C07"] + ". The quantifier over all inputs and all ~960 rule bodies is not discharged deductively; see DESIGN.md for which kernel functions of the mechanism are under contract.",
    "note": "Universe: repository fixtures x 3 configurations + 2 input variants + generated micro designs. Known findings of the unchanged tree are listed in known_findings.json by (rule, file, configuration, variant).",
}

DEDUCTIVE = ['vsg.vhdlFile.extract.tokens.New.extract_tokens', 'vsg.vhdlFile.utils.count_carriage_returns', 'vsg.rules.token_case.token_case._fix_violation', 'vsg.rules.whitespace_between_tokens.Rule._fix_violation', 'vsg.rules.token_indent.token_indent._fix_violation']


def run():
    c = Check("C07", "other")
    c.engine = Engine()
    if DEDUCTIVE:
        c.deductive(DEDUCTIVE)
    _pipeline.pipeline_part(c, "C07")
    return c.finish({"explanation": META["text"]})
