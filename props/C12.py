# -*- coding: utf-8 -*-
"""C12 — Configuration is obeyed with the documented precedence."""
from bounded import config_prec, corpus
from pyvc.checklib import Check, Finding, run_selftest
from pyvc.engine import Engine

META = {
    "level": "other",
    "technique": "contract-based deductive verification (pyvc) of the three configuration levels of vsg/rule.py (global, group, rule id), of their composition Rule.configure, of the unknown-rule check of rule_list and of the merge of configuration files (process_config_file), over dictionary objects (key set + key -> reference map) with a universally quantified ghost attribute name; the per-file levels, the merging of several -c files and 'the effective value is what the rule acts on' by a bounded stand-in (layered configurations through the real config.New / apply_rules.configure_rules)",
    "text": "Proved for every attribute name ga, every rule object and every configuration dictionary of the documented shape (sections that exist are dictionaries): after Rule.configure the entry self.__dict__[ga] is the value of the rule-id section if it mentions ga, else of a group of the rule that mentions it, else of the global section (only for names of the rule's configurable set), else the value it had (style default); a group or rule-id section cannot add an attribute; the same order for the severity; option objects receive the rule-id value; a deprecated rule that is configured returns its message and is not configured; the configuration dictionaries themselves are not modified (object-precise frame); _validate_configuration_rule_exists raises ConfigurationError exactly when a key of the rule section is neither 'global', 'group' nor the id of a rule, independently of any state; process_config_file (the merge of a later -c file into the earlier ones, for files without a file_list section) replaces every section of the same name except the rule section, inside which every key the later file has ('global', 'group', a rule id) is taken from it and every other key is kept, and leaves the later file unchanged. BOUNDED: per-file levels (file_list / file_rules), merging of file_list sections, path spellings, and that rule_list.configure calls these functions for every rule.",
    "note": "Assumption A10: r.x reads r.__dict__['x'] (Python semantics; the contracts speak about __dict__ entries). get_severity_named is a stub (valid configurations name severities that exist). Not under contract: rule_list.configure (debug flag, message assembly), process_file_list_key (stub, not reached: the contract of process_config_file requires a later file without file_list), config.New / read_configuration_files, apply_rules.configure_rules_per_option.",
}

QUALS = [
    "vsg.rule.configure_global_rule_attributes",
    "vsg.rule.configure_attribute",
    "vsg.rule.configure_group_rule_attributes",
    "vsg.rule.configure_rule_attributes",
    "vsg.rule.Rule.configure",
    "vsg.deprecated_rule.Rule.print_output",
    "vsg.rule_list.rule_list.get_list_of_rule_names",
    "vsg.rule_list.rule_does_not_exist_in_list",
    "vsg.rule_list.rule_list._validate_configuration_rule_exists",
    "vsg.config.process_config_file",
]


def run():
    c = Check("C12", "other")
    c.engine = Engine()
    c.deductive(QUALS)
    n = 96 if c.tier == "quick" else 3000
    res = corpus.pmap(config_prec.scenario, [c.seed * 100000 + i for i in range(n)], chunksize=4)
    c.bounded["layered_configurations"] = {"evaluations": len(res), "distinct_nontrivial": len({(r[2]["rule"], r[2]["attr"], tuple(r[2]["levels"])) for r in res if r[2]["levels"]}), "rule": "seeded rule x attribute x subset of the five levels through the real configuration path; non-trivial = at least one level sets the attribute; distinct by (rule, attribute, levels)"}
    for seed, probs, info in res:
        for p in probs[:1]:
            c.findings.append(Finding("bounded", "precedence", p, {"scenario_seed": seed, "scenario": info, "observed": p, "how_to_rerun": "cd /verif && /venv/bin/python -c 'from bounded import config_prec; print(config_prec.scenario(%d))'" % seed}, "%s.%s" % (info["rule"], info["attr"])))
    ares = corpus.pmap(config_prec.alias_case, [c.seed * 1000 + i for i in range(6 if c.tier == "quick" else 60)], chunksize=1)
    c.bounded["yaml_aliases"] = {"evaluations": len(ares), "distinct_nontrivial": len(ares), "rule": "two -c files through the real config.New: the first (YAML) shares one mapping between three rules (anchor / aliases), the second names one of them; only that rule follows the second file"}
    for seed, probs, info in ares:
        for p_ in probs[:1]:
            c.findings.append(Finding("bounded", "precedence", p_, {"scenario_seed": seed, "scenario": info, "observed": p_, "how_to_rerun": "cd /verif && /venv/bin/python -c 'from bounded import config_prec; print(config_prec.alias_case(%d))'" % seed}, "alias seed=%d" % seed))
            break
    if c.tier == "thorough":
        run_selftest(c, ["mutants_configure.py", "mutants_config.py"], lambda eng: QUALS)
    c.trusted += ["assumed contract: %s — %s" % (q, ct["trusted"]) for q, ct in sorted(c.engine.contracts.items()) if ct.get("trusted") and ("configure" in q or "severity" in q or "print_output" in q)]
    c.trusted.append("A10: attribute access r.x is the dictionary entry r.__dict__['x'] (Python semantics, not modelled: the contracts state the entries)")
    return c.finish({"explanation": META["text"]})
