# -*- coding: utf-8 -*-
"""C12 — Configuration is obeyed with the documented precedence."""
from bounded import config_prec, corpus
from pyvc.checklib import Check, Finding

META = {
    "level": "other",
    "technique": "bounded stand-in only: layered configurations through the real config.New / apply_rules.configure_rules path compared with the documented precedence; no deductive part (the configure_* functions work on __dict__ and nested YAML dictionaries, outside the verifier's subset)",
    "text": "BOUNDED ONLY: for seeded (rule, attribute) pairs and every subset of the five configuration levels (global, group, rule id, file_list, file_rules; the rule level optionally in two -c files) the effective attribute is the value of the highest-priority applicable level, option objects agree with the attribute, and unknown or deprecated rule names raise a configuration error. That the effective value is what the rule acts on is carried by C03/C13 (disable, fixable, severity gating, proved) and C14 (severity in reports).",
    "note": "Not under contract: vsg/rule.py configure_* (setattr/__dict__), vsg/config.py. Universe: seeded scenarios over the ~960 real rule objects.",
}


def run():
    c = Check("C12", "other")
    n = 96 if c.tier == "quick" else 3000
    res = corpus.pmap(config_prec.scenario, [c.seed * 100000 + i for i in range(n)], chunksize=4)
    c.bounded["layered_configurations"] = {"evaluations": len(res), "distinct_nontrivial": len({(r[2]["rule"], r[2]["attr"], tuple(r[2]["levels"])) for r in res if r[2]["levels"]}), "rule": "seeded rule x attribute x subset of the five levels through the real configuration path; non-trivial = at least one level sets the attribute; distinct by (rule, attribute, levels)"}
    for seed, probs, info in res:
        for p in probs[:1]:
            c.findings.append(Finding("bounded", "precedence", p, {"scenario_seed": seed, "scenario": info, "observed": p, "how_to_rerun": "cd /verif && /venv/bin/python -c 'from bounded import config_prec; print(config_prec.scenario(%d))'" % seed}, "%s.%s" % (info["rule"], info["attr"])))
    return c.finish({"explanation": META["text"]})
