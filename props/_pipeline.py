# -*- coding: utf-8 -*-
"""Shared driver for the properties whose bounded part is the instrumented fix/check pipeline."""
from bounded import runner
from pyvc.checklib import Check, CheckerFault, Finding

WHAT = {
    "C01": "per rule application inside a full phase-ordered fix run: code tokens identical (phases 2-5,7), identical up to case with literals untouched (phase 6), or equal after setting aside the documented optional elements with inserted names already present (phase 1); normalisers keep code tokens; generated nested designs: name after 'end' matches the statement closed",
    "C02": "per rule application: comment / pragma / preprocessor token sequence identical (documented comment normalisers and removers excepted) and a '--' comment stays last on its line",
    "C03": "per rule application: phases 2-5 change nothing but white space (structure-group rules excepted), phase 6 only letter case with equal lengths and literals untouched, phase 7 / fixable:false / disabled / non-error severity change nothing",
    "C06": "check run: in-memory model (class, value, indent, code tags of every token) unchanged, second check gives the same report, disabling a seeded set of rules removes exactly their violations",
    "C07": "per rule application of a non-structural phase 2, 4, 5, 6 rule: line count unchanged, changed lines are reported lines, reported lines lie inside the file",
    "C08": "after the fix run: emitted text accepted, fresh parse equals the in-memory model (values, roles, indent levels), report of the in-memory re-check equals a fresh check of the emitted text",
    "C09": "a second fix run from the emitted text changes nothing; up to four further runs never revisit an earlier text",
    "C10": "immediately after each rule's fix a second fix by the same rule changes nothing",
    "C18": "before every analysis (fix and check runs) the token index equals a recomputation; every region of interest is the slice of the token list at its recorded start; after update() every token outside the analysed regions is still there, in order",
    "C19": "no exception and no timeout in load/configure, every Rule.fix, the re-check and the check run",
}


def pipeline_part(c, pid):
    res, cached = runner.run_all(c.tier, c.seed)
    errs = [r for r in res if r["stats"].get("error")]
    if errs:
        raise CheckerFault("pipeline worker failed: %s" % errs[0]["stats"]["error"])
    fs = runner.findings(res, pid)
    seen = set()
    for f in fs:
        name = "pipeline:%s:%s" % (pid, f["rule"] or "-")
        wit = "%s|%s|%s" % (f["file"], f["config"], f["variant"])
        if (name, wit) in seen:
            continue
        seen.add((name, wit))
        c.findings.append(
            Finding(
                "bounded",
                name,
                "%s [%s%s] %s: %s" % (f["file"], f["config"], ("," + f["variant"]) if f["variant"] else "", f["rule"], f["message"]),
                {"file": f["file"], "config": f["config"], "variant": f["variant"], "rule": f["rule"], "observed": f["message"], "how_to_rerun": "cd /verif && /venv/bin/python -c \"from bounded import runner; print(runner.run_job(('%s','%s','%s'))[1])\"" % (f["file"] if f["file"].startswith("gen:") else "/repo/" + f["file"], f["config"], f["variant"])},
                wit,
            )
        )
    acc = [r for r in res if r["stats"].get("accepted")]
    c.bounded["fix_pipeline"] = {
        "evaluations": len(res),
        "distinct_nontrivial": len([r for r in acc if r["stats"].get("rule_fixes_changed", 0) > 0 or r["stats"].get("check_violations", 0) > 0]),
        "accepted_by_vsg": len(acc),
        "rule_applications": sum(r["stats"].get("rule_fixes", 0) for r in res),
        "rule_applications_that_changed_the_file": sum(r["stats"].get("rule_fixes_changed", 0) for r in res),
        "regions_checked": sum(r["stats"].get("regions", 0) for r in res),
        "universe": "every tests/**/*.vhd x {default, jcl, upper} + 2 path-derived input variants (preprocessor lines, inserted comments) + generated micro designs x {default, jcl, endlabels}; thorough = whole universe, quick = VERIF_SEED sample",
        "reused_cached_run_for_same_tree": cached,
        "rule": WHAT[pid] + "; one evaluation = one instrumented run of a (file, configuration, variant); non-trivial = accepted by VSG and at least one rule changed the file or reported a violation",
    }
    c.samples.extend([{"job": r["job"], "stats": {k: v for k, v in r["stats"].items() if k in ("rule_fixes", "rule_fixes_changed", "regions", "seconds")}} for r in res[:2]])
    return res
