# -*- coding: utf-8 -*-
"""Shared driver for the properties whose bounded part is the instrumented fix/check pipeline."""
from bounded import runner
from pyvc.checklib import Check, CheckerFault, Finding

WHAT = {
    "C01": "per rule application inside a full phase-ordered fix run: code tokens identical (phases 2-5,7), identical up to case with literals untouched (phase 6), or equal after setting aside the documented optional elements with inserted names already present (phase 1); normalisers keep code tokens; generated nested designs: name after 'end' matches the statement closed",
    "C02": "per rule application: comment / pragma / preprocessor token sequence identical (documented comment normalisers and removers excepted) and a '--' comment stays last on its line; the single-line comments of the parsed model are the comments an independent scanner (bounded/commentlex.py: string literals, extended identifiers, character literals, delimited comments) finds in the text",
    "C03": "per rule application: phases 2-5 change nothing but white space (structure-group rules excepted), phase 6 only letter case with equal lengths and literals untouched, phase 7 / fixable:false / disabled / non-error severity change nothing",
    "C06": "check run: in-memory model (class, value, indent, code tags of every token) unchanged, second check gives the same report, disabling a seeded set of rules removes exactly their violations",
    "C07": "per rule application of a non-structural phase 2, 4, 5, 6 rule: line count unchanged, changed lines are reported lines, reported lines lie inside the file",
    "C08": "after the fix run: emitted text accepted, fresh parse equals the in-memory model (values, roles, indent levels), report of the in-memory re-check equals a fresh check of the emitted text",
    "C09": "a second fix run from the emitted text changes nothing; up to four further runs never revisit an earlier text",
    "C10": "immediately after each rule's fix a second fix by the same rule changes nothing",
    "C18": "before every analysis (fix and check runs) the token index equals a recomputation; every region of interest is the slice of the token list at its recorded start; after update() every token outside the analysed regions is still there, in order",
    "C19": "no exception and no timeout in load/configure, every Rule.fix, the re-check and the check run",
}


# what the contracts of the kernel functions decide for each pipeline property (for all inputs, discharged by SMT);
# the quantifier over the remaining rule bodies is the part that stays with the bounded layer
BASES = "the _fix_violation of 14 fix bases against effect contracts — token_case (243 of the 1049 rule objects inherit it unchanged), whitespace_between_tokens (171), the do-nothing default of vsg/rule.py (134: unfixable, naming and deprecated rules), token_indent (102), align_tokens_in_region_between_tokens (45, and 7 for its skipping-lines variant), blank_line_below_line_ending_with_token (36), token_prefix (26), previous_line (25), insert_carriage_return_after_token_if_it_is_not_followed_by_a_comment (18), split_line_at_token (17), blank_line_above_line_starting_with_token (16), consistent_token_case (10), remove_excessive_blank_lines_above_line_starting_with_token (5): 855 rules in all — with the _analyze of token_indent and whitespace_between_tokens proved to establish their preconditions; the preconditions of the other bases are assumed and OBSERVED: the contract text is evaluated by CPython around every real _fix_violation call of the bounded universe (bounded/monitor.py)"
DED = {
    "C01": "vhdlFile.update is the splice of the analysed regions (everything in front of the first region keeps identity and place; one region: exactly old[:start] + new + old[end:]); remove_beginning_of_file_tokens is a filter; " + BASES + ": every non-white-space token of the region is the same object in the same order, token_case changes the first token's value in letter case only and keeps its length; the phase-1 normalisers (fix_blank_lines, fix_trailing_whitespace) keep every non-blank token and every line break",
    "C02": BASES + ": non-white-space tokens (so every comment, pragma and preprocessor token of the region) are the same objects in the same order with unchanged values; the phase-1 normalisers keep them too; the classifier of single-line comments (classify_single_line_comment) makes exactly the text from a '--' token outside a delimited comment up to the trailing white space into ONE comment token: no character of the line is lost or duplicated, tokens in front are untouched; remove_leading / remove_trailing_whitespace_and_comments (the cut of an if / elsif condition): what is cut off is white space and comments only -- ALL of them -- and the rest starts / ends with code, so that nothing a rule puts around the condition lands behind a comment",
    "C03": BASES + " (white-space rules write white-space tokens only; case rules change letter case only, same length); rule_list.fix calls Rule.fix only for error-type severities of enabled rules and Rule.fix does nothing at all when fixable is false (ghost operation log)",
    "C06": "rule_list.check_rules analyses exactly the enabled rules of the visited phases, each once, and modifies nothing but rule.violations and its own counters (frame proved against the assumed frame of Rule.analyze); add_violation / has_code_tag decide suppression from the stamped tags only",
    "C07": "the extraction helpers behind the three largest rule bases (get_tokens_matching, get_tokens_at_beginning_of_line_matching, get_sequence_of_tokens_matching: 516 rules) return regions whose recorded line is the line of their first token (1 + line breaks in front of the recorded start), given that the index agrees with the list; whitespace_before_token._get_tokens_of_interest (32 rules): get_token_and_n_tokens_before_it records the line of the matched (last) token, and the guard against line breaks among the first two tokens plus the re-count in extract_tokens make every region the rule hands on carry the line of its first token; extract_tokens: a sub-region's line is the region's line plus the line breaks skipped, its start index the region's start plus the tokens skipped; count_carriage_returns counts line breaks; " + BASES + ": the number of line breaks of the region is unchanged; ORDER: get_tokens_matching, get_tokens_at_beginning_of_line_matching, its between-tokens-unless variant (generic_004) and get_token_and_n_tokens_before_it return their regions in the order of the list (the position behind each region's last token never decreases), which vhdlFile.update assumes when it splices from the last region to the first (get_indexes_of_token_list is ascending, filter_indexes_in_unless_regions keeps the order)",
    "C08": "apply_rules: with --fix the single write happens after all fixing, exactly when some _fix_violation ran, and what is written is get_lines() of the model the final report is computed from (nothing between the write and the report modifies the token list); get_lines is the per-line concatenation of token values; write_vhdl_file writes join(get_lines()[1:]) + newline; the phase-1 normalisers and update_token_map are verified (index == INDEX(list) afterwards); rule_list.fix runs set_token_indent before phase 4 and the normalisers after phase 1",
    "C09": "rule_list.fix: fixed order of phases, sub-phases and rules (a function of the rule list only), normalisers after phase 1, indent refresh before phase 4; enforce_prerequisites puts every rule that names prerequisites behind all rules of its sub-phase that name none, independently of which rules are enabled; the normalisers are idempotent-compatible filters (keep non-blank tokens and line breaks)",
    "C10": "Rule.fix analyses, filters, fixes each violation once and updates once; " + BASES + " have postconditions that state the region carries the requested white space / indentation / case afterwards; vhdlFile.update rebuilds the index iff bUpdateMap; whitespace_between_tokens._analyze: the width every violation asks for is a width the same analysis accepts for the option value in force (integer, '>N', '>=N', '<N', '<=N', 'N+'), so the rule cannot report again right after its own fix",
    "C18": "the extraction helpers behind the three largest rule bases (get_tokens_matching, get_tokens_at_beginning_of_line_matching, get_sequence_of_tokens_matching: 516 rules) and get_tokens_bounded_by (41 direct users) return regions that are exactly the slice of the token list at their recorded start (lengths 1, 1-2, len(sequence)), given that the index agrees with the list (the property's first clause, assumed there and observed at every analysis); rule_list.fix re-indexes after the phase-1 normalisers and nowhere else touches the list outside Rule.fix; vhdlFile.update: splice semantics and 'index rebuilt from the new list iff bUpdateMap'; update_token_map: index == INDEX(list); calculate_end_index / extract_tokens: [iStartIndex, iEndIndex) has as many positions as the region has real tokens and sub-regions shift the start by the tokens skipped; token_case._fix_violation keeps the region's token objects (remap=False is sound for it); ORDER: the regions of get_tokens_matching, get_tokens_at_beginning_of_line_matching, its between-tokens-unless variant and get_token_and_n_tokens_before_it come in list order (ends never decrease), one half of what update() assumes about its argument (P_update; disjointness and the order of the other extractors stay assumed and observed)",
    "C19": "vsg/tokens.py raises nothing for any string; apply_rules lets no ClassifyError / ConfigurationError / local-rules OSError escape, returns exit status True/1 for a rejected file and 'keep processing' after a syntax error; detect_subelement_until / classify_subelement_until (the statement-part loops of the parser) terminate (decreases clause) given that a classifier never returns an index in front of its argument, and so do the eight <x>_part.detect loops that repeat an item detector until it makes no progress (process / subprogram statement parts, sequence_of_statements, the declarative parts of processes, subprograms, packages, package bodies, configurations); the classifier itself: for each of its 389 token-walking functions a position contract GENERATED from the source (0 <= iToken <= len => iToken <= result <= len, the token list keeps its length, every while loop with the measure 'distance to the end of the list'), verified against the generated contracts of its callees -- 346 verify, the others are assumed and listed (contracts/parser_unverified.json); the token helpers of vhdlFile/utils.py (assign_next_token*, assign_tokens_until*, tokenize_label, find_in_*, detect_submodule, the parenthesis matchers) by hand; what is proved is partial correctness of the positions plus termination of every loop under contract, NOT termination of the recursion between classifiers; object_value_is raises IndexError exactly for an index past the end; the three fix bases above raise nothing under their preconditions",
}


def fix_bases(engine):
    """every _fix_violation under contract (contracts/fixes.py) plus the default implementation in vsg/rule.py"""
    return sorted(q for q in engine.contracts if q.endswith("._fix_violation") and q.startswith("vsg.rules.")) + ["vsg.rule.Rule._fix_violation@impl"]


def fix_base_search(engine, seed=0):
    """concrete_cfg for Check.deductive: a failed obligation of a fix base is replayed by a search over real rule / token objects"""
    from bounded import fixgen, monitor

    srch = fixgen.searcher(engine, monitor._load()["vocab"], seed=seed)
    return {q: {"searcher": srch} for q in fix_bases(engine)}


def meta(pid, extra_note=""):
    return {
        "level": "other",
        "technique": "contract-based deductive verification (pyvc: contracts on the real functions, VCs from the real AST, cvc5/z3) of the kernel functions the property depends on; the quantifier over all rule bodies is covered by runtime evaluation of the same effect contracts at the choke points of the real code (Rule.fix, Rule.analyze, vhdlFile.update, rule_list.fix) over a finite universe of inputs: a labelled bounded stand-in, not a proof",
        "text": "PROVED for all inputs (kernel): " + DED[pid] + ". BOUNDED (the property itself, every rule): " + WHAT[pid] + ". The other fix bases (194 rules, mostly phase-1 structure rules that move, insert or remove tokens) are not under contract (DESIGN.md section 2 lists which are), hence level 'other'.",
        "note": "Universe of the bounded part: repository fixtures x 3 configurations + 2 input variants + generated micro designs. Known findings of the unchanged tree are listed in known_findings.json by (rule, file, configuration, variant). Assumed: abstract contracts of Rule.analyze / Rule._fix_violation (virtual), process_tokens (INDEX stub), P_update (regions ascending and disjoint) as hypothesis of the splice clauses. Trusted: pyvc, SMT solvers, CPython-validated lemma schemas." + extra_note,
    }


def pipeline_part(c, pid):
    res, cached = runner.run_all(c.tier, c.seed)
    errs = [r for r in res if r["stats"].get("error")]
    if errs:
        raise CheckerFault("pipeline worker failed: %s" % errs[0]["stats"]["error"])
    fs = runner.findings(res, pid)
    seen = set()
    for f in fs:
        name = "pipeline:%s:%s" % (pid, f["rule"] or "-")
        wit = "%s|%s|%s" % (f["file"], f["config"], f["variant"])
        if (name, wit) in seen:
            continue
        seen.add((name, wit))
        c.findings.append(
            Finding(
                "bounded",
                name,
                "%s [%s%s] %s: %s" % (f["file"], f["config"], ("," + f["variant"]) if f["variant"] else "", f["rule"], f["message"]),
                {"file": f["file"], "config": f["config"], "variant": f["variant"], "rule": f["rule"], "observed": f["message"], "how_to_rerun": "cd /verif && /venv/bin/python -c \"from bounded import runner; print(runner.run_job(('%s','%s','%s'))[1])\"" % (f["file"] if f["file"].startswith("gen:") else "/repo/" + f["file"], f["config"], f["variant"])},
                wit,
            )
        )
    acc = [r for r in res if r["stats"].get("accepted")]
    c.bounded["fix_pipeline"] = {
        "evaluations": len(res),
        "distinct_nontrivial": len([r for r in acc if r["stats"].get("rule_fixes_changed", 0) > 0 or r["stats"].get("check_violations", 0) > 0]),
        "accepted_by_vsg": len(acc),
        "rule_applications": sum(r["stats"].get("rule_fixes", 0) for r in res),
        "rule_applications_that_changed_the_file": sum(r["stats"].get("rule_fixes_changed", 0) for r in res),
        "regions_checked": sum(r["stats"].get("regions", 0) for r in res),
        "universe": "every tests/**/*.vhd x {default, jcl, upper} + 2 path-derived input variants (preprocessor lines, inserted comments) + generated micro designs x {default, jcl, endlabels}; thorough = whole universe, quick = VERIF_SEED sample",
        "reused_cached_run_for_same_tree": cached,
        "rule": WHAT[pid] + "; one evaluation = one instrumented run of a (file, configuration, variant); non-trivial = accepted by VSG and at least one rule changed the file or reported a violation",
    }
    c.samples.extend([{"job": r["job"], "stats": {k: v for k, v in r["stats"].items() if k in ("rule_fixes", "rule_fixes_changed", "regions", "seconds")}} for r in res[:2]])
    # run-time evaluation of the sidecar contracts of the fix bases at every real _fix_violation call (bounded/monitor.py)
    if pid in ("C01", "C02", "C03", "C07", "C10"):
        calls = sum(r["stats"].get("contracts", {}).get("calls", 0) for r in res)
        npre = sum(r["stats"].get("contracts", {}).get("n_pre_false", 0) for r in res)
        posts = [(r["job"], x) for r in res for x in r["stats"].get("contracts", {}).get("post_fail", [])]
        pres = [(r["job"], x) for r in res for x in r["stats"].get("contracts", {}).get("pre_false", [])]
        c.bounded["contract_monitor"] = {
            "evaluations": calls,
            "distinct_nontrivial": len(set(x for r in res for x in r["stats"].get("contracts", {}).get("shapes", []))),
            "precondition_false": npre,
            "postcondition_false": len(posts),
            "rule": "requires/ensures text of contracts/fixes.py evaluated by CPython around every real _fix_violation call of the pipeline runs (bases under contract only); distinct = different (base, rule, classes of the region's tokens, action) among the calls whose precondition V_F held (hash-counted per run, capped at 4000 per run); a false precondition is an unmet ASSUMPTION of the deductive part (reported, not a violation), a false postcondition is a finding",
            "examples_precondition_false": [list(x) for _, x in pres[:5]],
        }
        for job, x in pres[:3]:
            print("ASSUMPTION-NOT-MET: property=%s precondition V_F of %s._fix_violation is false at a real call (rule %s, line %s, action %s, region %s) in %s" % (pid, x[0], x[1], x[2], x[3], x[4], job[0]))
        seen2 = set()
        for job, x in posts:
            if (x[0], x[1]) in seen2:
                continue
            seen2.add((x[0], x[1]))
            qn = [q for q in c.engine.contracts if q.endswith("." + x[0] + "._fix_violation")] if c.engine else []
            proved = qn and all(r["verdict"] == "unsat" for r in c.obl_results if r["name"].startswith(qn[0] + "#") and r["kind"] != "reach") and any(r["name"].startswith(qn[0] + "#") for r in c.obl_results)
            if proved:
                raise CheckerFault("contract of %s._fix_violation is discharged symbolically but fails at a real call: %s" % (x[0], x[3]))
            c.findings.append(Finding("crosscheck", "monitor:%s" % x[0], "%s (rule %s, line %s) in %s [%s]" % (x[3], x[1], x[2], job[0], job[1]), {"function": x[0] + "._fix_violation", "failing_input": {"file": job[0], "config": job[1], "variant": job[2], "rule": x[1], "line": x[2]}, "observed": x[3]}, "%s|%s" % (x[1], job[0])))
    return res
