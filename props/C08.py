# -*- coding: utf-8 -*-
"""C08 — What VSG writes is what it would read."""
from props import _pipeline
from pyvc.checklib import Check
from pyvc.engine import Engine

META = _pipeline.meta('C08')

DEDUCTIVE = ["vsg.rule_list.rule_list.fix", "vsg.apply_rules.apply_rules", "vsg.apply_rules.write_vhdl_file", "vsg.vhdlFile.vhdlFile.vhdlFile.get_lines", "vsg.vhdlFile.vhdlFile.vhdlFile.fix_blank_lines", "vsg.vhdlFile.vhdlFile.vhdlFile.fix_trailing_whitespace", "vsg.vhdlFile.vhdlFile.vhdlFile.update_token_map", "vsg.vhdlFile.utils.fix_blank_lines", "vsg.vhdlFile.utils.fix_trailing_whitespace"]


def run():
    c = Check("C08", "other")
    c.engine = Engine()
    if DEDUCTIVE:
        c.deductive(DEDUCTIVE)
    _pipeline.pipeline_part(c, "C08")
    return c.finish({"explanation": META["text"]})
