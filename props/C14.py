# -*- coding: utf-8 -*-
"""C14 — Exit status and every report format tell the same story."""
import os

from bounded import cli, corpus
from pyvc.checklib import Check, Finding
from pyvc.engine import Engine

META = {
    "level": "other",
    "technique": "contract-based deductive verification (pyvc, SMT) of the exit flag (rule_list.check_rules: violations flag set iff an error-severity violation was produced; number of rules checked == analyses run; apply_rules returns that flag) and of the JSON / JUnit builders of rule_list (entry counts against spec functions of the rule list); all report formats of one real CLI run parsed back and compared as bounded stand-in",
    "text": "Proved for all rule lists and analysis outcomes: the exit status apply_rules returns for an accepted file is the flag of the final check_rules (and True/1 for a rejected one); check_rules sets the flag that becomes the exit status exactly when an error-severity rule produced a violation (warnings never set it) and counts exactly the rules it analysed. extract_violation_dictionary lists exactly one JSON entry per violation of every rule (n_viol(rules)) and extract_junit_testcase exactly one failure line per violation of the error-severity rules (n_err_viol(rules)), in a single failure element that is absent when there is none. The text formatters (standard / syntastic / summary output with sorted(), the XML and quality-report writers) are not under contract; their mutual consistency is checked as a labelled bounded stand-in: standard, syntastic and summary output, JSON, JUnit and quality report of real CLI runs with seeded built-in and user-defined severities are parsed back and compared, together with the printed counts and the exit status.",
    "note": "Known finding (listed): the GitLab quality report maps severities by the NAME 'Error', so violations of a user-defined error-type severity are reported as 'minor'. Trusted: pyvc, SMT solvers; assumed abstract contract of Rule.analyze.",
}


def run():
    c = Check("C14", "other")
    c.engine = Engine()
    QUALS = ["vsg.rule_list.rule_list.check_rules", "vsg.apply_rules.apply_rules", "vsg.rule_list.rule_list.clear_violations", "vsg.rule_list.rule_list.extract_violation_dictionary", "vsg.rule_list.rule_list.extract_junit_testcase", "vsg.junit.failure.add_text", "vsg.junit.failure.has_text", "vsg.junit.testcase.add_failure"]
    c.deductive(QUALS)
    n = 24 if c.tier == "quick" else 400
    files = corpus.sample(n, c.seed + 14)
    # directed inputs (always): several violations of one rule with the same solution on one line, tight spacing, a case statement
    import tempfile

    from bounded import designs

    ddir = tempfile.mkdtemp(prefix="c14d_")
    for nm in ("repeated_on_one_line", "tight_spacing", "case_align", "nested_record_names"):
        pth = os.path.join(ddir, "gen_%s.vhd" % nm)
        with open(pth, "w") as fh:
            fh.write(designs.all_designs()[nm])
        files.append(pth)
    res = corpus.pmap(cli.c14_case, [(f, c.seed * 1000 + i) for i, f in enumerate(files)], chunksize=1)
    c.bounded["report_formats"] = {"evaluations": 3 * len(res), "distinct_nontrivial": len(res), "rule": "corpus file x seeded severity configuration (built-in, user-defined error type, user-defined warning type, mixed, warnings only): 3 CLI runs producing 6 report formats; every file/configuration pair is distinct"}
    for p, mode, probs in res:
        for why in probs:
            if why.startswith("traceback"):
                c.bounded["report_formats"]["runs_that_crashed_(C19)"] = c.bounded["report_formats"].get("runs_that_crashed_(C19)", 0) + 1
                continue
            kind = "quality_report_critical_count" if why.startswith("quality report marks") else "traceback" if why.startswith("traceback") else "formats"
            rel = os.path.relpath(p, corpus.REPO)
            c.findings.append(Finding("bounded", "reports:" + kind, "%s [%s]: %s" % (rel, mode, why), {"file": p, "severity_mode": mode, "observed": why}, "%s|%s" % (rel, mode)))
    import shutil

    shutil.rmtree(ddir, ignore_errors=True)
    if c.tier == "thorough":
        from pyvc.checklib import run_selftest

        run_selftest(c, ["mutants_reports.py"], lambda eng: QUALS[3:5])
    return c.finish({"explanation": META["text"]})
