# -*- coding: utf-8 -*-
"""C15 — A file's result does not depend on jobs, order, neighbours or input channel."""
from bounded import cli, corpus
from pyvc.checklib import Check, Finding

META = {
    "level": "other",
    "technique": "bounded stand-in only (real CLI, batches with -p 1 / -p 4, shuffled order, a file that fails to parse in the batch, --stdin, fixed text alone vs batch); the schedules quantifier of multiprocessing.Pool is outside contract-based deductive verification of this code base",
    "text": "BOUNDED ONLY: contracts here cannot speak about process interleavings, and the frame that would make the property true (apply_rules modifies nothing that outlives the call except the file) would need ownership reasoning over every rule body. Checked on seeded batches of corpus files: per-file report, JSON entry and fixed text are the same alone and in a batch, with 1 and 4 jobs, after a file that fails to parse, by name and through --stdin; outputs appear in command-line order; exit status 1 when a file failed to parse.",
    "note": "multiprocessing.Pool.imap order preservation is an assumed contract of the standard library.",
}


def run():
    c = Check("C15", "other")
    n = 4 if c.tier == "quick" else 40
    files = corpus.sample(3 * n, c.seed + 15)
    jobs = [(files[3 * i : 3 * i + 3], c.seed * 100 + i) for i in range(n)]
    res = corpus.pmap(cli.c15_case, jobs, chunksize=1)
    c.bounded["batches"] = {"evaluations": len(res) * 9, "distinct_nontrivial": len(res), "rule": "seeded batch of 3 corpus files + one unparsable file: 3 runs alone, 2 batch runs (-p 1, -p 4, shuffled), --stdin, --fix alone vs batch; non-trivial = distinct batch"}
    for paths, probs in res:
        for why in probs[:1]:
            c.findings.append(Finding("bounded", "batch", why, {"files": paths, "observed": probs}, paths[0]))
    res3 = corpus.pmap(cli.c15_config_case, jobs, chunksize=1)
    c.bounded["shared_configuration"] = {"evaluations": len(res3) * 3, "distinct_nontrivial": len(res3), "rule": "in-process, one configuration object for two files of a globbed file_list entry with rule configuration, the first with its own file_rules entry (seeded rules): the configuration object is unchanged by apply_rules and the second file's result equals its result when processed first"}
    for paths, probs in res3:
        for why in probs[:1]:
            c.findings.append(Finding("bounded", "shared_configuration", why, {"files": paths, "observed": probs}, paths[0]))
    res4 = corpus.pmap(cli.c15_filelist_case, jobs, chunksize=1)
    c.bounded["file_list_settings_follow_the_file"] = {"evaluations": len(res4) * 8, "distinct_nontrivial": len(res4), "rule": "real CLI, a file_list whose first and last entry disable (for that file only) a rule that reports on it: the JSON entry of each of the two files is the same whether the files come from the file_list alone or from -f in five different orders / subsets, and the disabled rule is silent for it"}
    for paths, probs in res4:
        for why in probs[:1]:
            c.findings.append(Finding("bounded", "file_list_order", why, {"files": paths, "observed": probs}, paths[0]))
    cli.option_leak_part(c, Finding, corpus)
    res2 = corpus.pmap(cli.c15_state_case, jobs, chunksize=1)
    c.bounded["shared_state"] = {"evaluations": len(res2) * 8, "distinct_nontrivial": len(res2), "rule": "in-process frame contract on the real apply_rules: fingerprint of every module-level and class-level mutable container of vsg.* equal before/after processing a file that ends inside open vsg_off / translate_off / vhdl_comp_off / delimited-comment regions, and the results of 3 corpus files equal before and after"}
    for paths, probs in res2:
        for why in probs[:1]:
            c.findings.append(Finding("bounded", "shared_state", why, {"files": paths, "observed": probs}, paths[0]))
    return c.finish({"explanation": META["text"]})
