# -*- coding: utf-8 -*-
"""C06 — Analysis is read-only, repeatable and rules do not interfere."""
from props import _pipeline
from pyvc.checklib import Check
from pyvc.engine import Engine

META = _pipeline.meta('C06')

DEDUCTIVE = ['vsg.rule_list.rule_list.check_rules', 'vsg.rule.Rule.add_violation', 'vsg.violation.New.has_code_tag', 'vsg.rule_list.rule_list.get_rules_in_phase', 'vsg.rule_list.rule_list.get_rules_in_subphase', 'vsg.rule_list.filter_out_disabled_rules']


def run():
    c = Check("C06", "other")
    c.engine = Engine()
    if DEDUCTIVE:
        c.deductive(DEDUCTIVE)
    _pipeline.pipeline_part(c, "C06")
    # a fresh rule object per file: what one file's configuration does to a rule must not be visible when the next file is checked
    from bounded import cli, corpus
    from pyvc.checklib import Finding

    cli.option_leak_part(c, Finding, corpus)
    return c.finish({"explanation": META["text"]})
