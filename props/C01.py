# -*- coding: utf-8 -*-
"""C01 — Fixing never changes what the VHDL means."""
from props import _pipeline
from pyvc.checklib import Check
from pyvc.engine import Engine

META = _pipeline.meta('C01')

DEDUCTIVE = ['vsg.vhdlFile.vhdlFile.vhdlFile.fix_blank_lines', 'vsg.vhdlFile.vhdlFile.vhdlFile.fix_trailing_whitespace', 'vsg.vhdlFile.utils.fix_blank_lines', 'vsg.vhdlFile.utils.fix_trailing_whitespace', 'vsg.vhdlFile.vhdlFile.vhdlFile.update', 'vsg.vhdlFile.vhdlFile.remove_beginning_of_file_tokens', 'vsg.rules.token_case.token_case._fix_violation', 'vsg.rules.whitespace_between_tokens.Rule._fix_violation', 'vsg.rules.token_indent.token_indent._fix_violation']


def run():
    c = Check("C01", "other")
    c.engine = Engine()
    c.deductive(sorted(set(DEDUCTIVE + _pipeline.fix_bases(c.engine))), _pipeline.fix_base_search(c.engine, c.seed))
    _pipeline.pipeline_part(c, "C01")
    if c.tier == "thorough":
        from pyvc.checklib import run_selftest

        run_selftest(c, ["mutants_fixes.py"], lambda eng: _pipeline.fix_bases(eng) + ["vsg.rules.token_indent.token_indent._analyze", "vsg.rules.whitespace_between_tokens.Rule._analyze", "vsg.rules.whitespace_between_tokens.Rule.create_violation"])
    return c.finish({"explanation": META["text"]})
