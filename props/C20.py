# -*- coding: utf-8 -*-
"""C20 — --fix_only fixes what it lists and nothing else."""
from bounded import corpus, fixonly
from pyvc.checklib import Check, Finding, run_selftest
from pyvc.engine import Engine
from props.C13 import trusted_contracts

META = {
    "level": "proof",
    "technique": "contract-based deductive verification (pyvc): Rule._filter_out_fix_only_violations against the filter spec function on_lines, Rule.fix with ghost fix log, SMT; same contracts evaluated on the real functions as bounded cross-check",
    "text": "Proved for all violation lists and all --fix_only dictionaries (missing keys, 'all', any line lists): the filter leaves the list unchanged when no --fix_only is given or the rule is listed with 'all', empties it when the rule is not listed, and otherwise keeps exactly the violations whose line is listed, in order, each once; rule_list.fix visits exactly the rules it visits without a selection and hands the dictionary to each Rule.fix unchanged; Rule.fix hands to _fix_violation and to vhdlFile.update only those (nothing when nothing is listed, so no write-back happens), a rule with fixable:false does nothing, and raises nothing on the KeyError paths.",
    "note": "That exactly the listed LINES change for a line-local rule is C07 applied to the filtered list; equivalence of 'every rule: all' with plain --fix follows because the filter is then the identity (first and third ensures). Assumed: abstract contracts of Rule.analyze, Rule._fix_violation, vhdlFile.update (stubs with ghost logs). Trusted: pyvc, SMT solvers, hom lemma schemas.",
}

QUALS = ["vsg.rule.Rule._filter_out_fix_only_violations", "vsg.rule.Rule.fix", "vsg.rule_list.rule_list.fix"]


def run():
    c = Check("C20", "proof")
    c.engine = Engine()
    c.deductive(QUALS)
    n = 400 if c.tier == "quick" else 6000
    res = corpus.pmap(fixonly.one, [c.seed * 100000 + i for i in range(n)], chunksize=25)
    bad = [r for r in res if r[1]]
    c.bounded["fix_only_contracts"] = {
        "evaluations": 2 * len(res),
        "distinct_nontrivial": len(res),
        "rule": "seeded real Rule objects (real violation.New objects, sorted and unsorted lines) x seeded --fix_only dictionaries (None, missing keys, 'all', unsorted and repeated line lists); contract text of contracts/rule.py evaluated by CPython on the real functions, plus: update() receives the analysis order without repeats; every seed is a distinct case",
    }
    for seed, out in bad[:1]:
        which, why, inp = out[0]
        c.findings.append(Finding("bounded", "fix_only:" + which, why, {"scenario_seed": seed, "failing_input": inp, "observed": why, "how_to_rerun": "cd /verif && /venv/bin/python -c 'from bounded import fixonly; print(fixonly.one(%d))'" % seed}, repr(inp)[:200]))
    # the selection reaches the rules through rule_list.fix, which must visit (analyse) exactly the rules it visits without a
    # selection: an unlisted rule is analysed and fixes nothing (its analysis may prepare the model for listed rules)
    from bounded import gating

    m = 32 if c.tier == "quick" else 400
    gres = corpus.pmap(gating.one_scenario_fix_only, [c.seed * 100000 + i for i in range(m)], chunksize=2)
    c.bounded["rule_list_fix_with_selection"] = {"evaluations": len(gres), "distinct_nontrivial": len({repr(x[2]) for x in gres}), "rule": "real rule_list (real constructor and configure()) with stubbed Rule.analyze / Rule.fix: the operations of rule_list.fix under seeded --fix_only dictionaries equal the contract's fix_phases (the same as without a selection)"}
    for seed, out, info in [x for x in gres if x[1]][:1]:
        which, why = out[0]
        c.findings.append(Finding("bounded", "gating:" + which, why, {"scenario_seed": seed, "scenario": info, "observed": why, "how_to_rerun": "cd /verif && /venv/bin/python -c 'from bounded import gating; print(gating.one_scenario_fix_only(%d))'" % seed}, "seed=%d" % seed))
    if c.tier == "thorough":
        run_selftest(c, ["mutants_rule.py"], lambda eng: QUALS[:2])
    c.trusted += trusted_contracts(c.engine)
    return c.finish({"explanation": "both functions fully discharged; bounded part cross-checks the same contract text on the real code and is the stand-in when a change takes a function out of the verifier's subset"})
