# -*- coding: utf-8 -*-
"""C13 — Phase gating, --all_phases, --fix_phase and skip_phase mean what they say."""
from bounded import corpus, gating
from pyvc.checklib import Check, Finding, run_selftest
from pyvc.engine import Engine

META = {
    "level": "proof",
    "technique": "contract-based deductive verification (pyvc): loop invariants over ghost operation log, spec functions fix_phases/check_phases, SMT; plus the same contracts evaluated on the real rule_list as a bounded cross-check",
    "text": "Proved for all rule lists, phases (arbitrary integers, so user re-assigned phases are covered), skip sets, fix_phase values and analysis outcomes: rule_list.fix performs exactly fix_phases(1..N) — enabled rules of the non-skipped phases 1..N in (phase, sub-phase, prerequisites-last) order, error-severity rules fixed, others only analysed, normalisers after phase 1, indent before phase 4 — and rule_list.check_rules analyses exactly check_phases(1..K), K = 7 with --all_phases, otherwise K = the first phase that produced an error-severity violation (nothing before it did), with the exit flag set iff such a violation was produced. The gated trace is therefore a prefix of the all-phases trace (lemma over the two contracts).",
    "note": "Assumed (abstract contracts of virtual methods, listed in evidence): Rule.analyze touches only its own violations and appends one event; Rule._fix_violation and set_token_indent as ghost-log stubs (the phase-1 normalisers and update_token_map are verified, their log event is ghost code). The driver apply_rules is under contract too: it passes fix_phase, skip_phase and all_phases unchanged to fix / check_rules and reports from a fresh check of the same model. Analysis determinism (same rule, same file => same violations) is C06. Trusted: pyvc, SMT solvers for unsat, lemma schemas of homomorphic spec functions (validated against CPython each run).",
}

QUALS = [
    "vsg.rule_list.rule_list.fix",
    "vsg.rule_list.rule_list.check_rules",
    "vsg.rule_list.rule_list.get_rules_in_phase",
    "vsg.rule_list.rule_list.get_rules_in_subphase",
    "vsg.rule_list.filter_out_disabled_rules",
    "vsg.rule_list.enforce_prerequisites",
    "vsg.rule.Rule.fix",
    "vsg.apply_rules.apply_rules",
    "vsg.rule_list.rule_list.clear_violations",
]


def run():
    c = Check("C13", "proof")
    c.engine = Engine()
    c.deductive(QUALS)
    # lemma: the gated report is the corresponding prefix of the all-phases report
    c.lemmas(["gated_is_prefix_of_all_phases"])
    n = 48 if c.tier == "quick" else 800
    res = corpus.pmap(gating.one_scenario, [c.seed * 100000 + i for i in range(n)], chunksize=2)
    bad = [r for r in res if r[1]]
    c.bounded["gating_scenarios"] = {
        "evaluations": 2 * len(res),
        "distinct_nontrivial": len({repr(r[2]) for r in res}),
        "rule": "real rule_list (real constructor, ~960 real rule objects) configured through the real configure() with seeded global/group/per-rule phase, subphase, disable, fixable, severity; rule_list.fix and check_rules run with stubbed Rule.analyze/Rule.fix implementing their assumed contracts; trace compared with the contract's spec functions; distinct = distinct (configuration, skip, fix_phase, all_phases) summaries",
    }
    for seed, out, info in bad[:1]:
        which, why = out[0]
        c.findings.append(Finding("bounded", "gating:" + which, why, {"scenario_seed": seed, "scenario": info, "observed": why, "how_to_rerun": "cd /verif && /venv/bin/python -c 'from bounded import gating; print(gating.one_scenario(%d))'" % seed}, "seed=%d" % seed))
    if c.tier == "thorough":
        run_selftest(c, ["mutants_rule_list.py"], lambda eng: QUALS)
    c.trusted += [t for t in trusted_contracts(c.engine)]
    return c.finish(
        {
            "explanation": "all obligations of rule_list.fix / check_rules / their helper filters / Rule.fix are discharged for arbitrary inputs; bounded part is a cross-check of the same contract text on the real objects (and the stand-in if a function leaves the verifier's subset)",
        }
    )


def trusted_contracts(eng):
    return ["assumed contract: %s — %s" % (q, ct["trusted"]) for q, ct in sorted(eng.contracts.items()) if ct.get("trusted")]
