# -*- coding: utf-8 -*-
"""C17 — The emitted configuration reproduces the run."""
from bounded import cli, corpus
from pyvc.checklib import Check, Finding

META = {
    "level": "other",
    "technique": "bounded stand-in only: -oc round trips through the real CLI under every predefined style with seeded configuration stacks, plus reports and fixes of sample files under the original and the emitted configuration; get_configuration/configure work on getattr/__dict__ and are outside the verifier's subset",
    "text": "BOUNDED ONLY: oc(oc(s,c)) == oc(s,c) as JSON, and for sample inputs the violations, exit status and fixed text under the emitted configuration equal those under the original style + configuration.",
    "note": "Known finding (listed): a user-defined severity is emitted by name but its definition ('severity:' section) is not, so the emitted configuration cannot be read back.",
}


def run():
    c = Check("C17", "other")
    styles = [None, "jcl", "indent_only"]
    n = 6 if c.tier == "quick" else 60
    sample = corpus.sample(2 if c.tier == "quick" else 6, c.seed + 17)
    jobs = [(styles[i % 3], c.seed * 100 + i, sample) for i in range(n)]
    res = corpus.pmap(cli.c17_case, jobs, chunksize=1)
    c.bounded["oc_round_trip"] = {"evaluations": len(res) * (2 + 4 * len(sample)), "distinct_nontrivial": len(res), "rule": "style x seeded configuration stack (per-rule, global, group, optionally a user-defined severity): -oc, -oc of the result, and check + fix of sample files under both; non-trivial = distinct stack"}
    for key, probs in res:
        for why in probs[:1]:
            kind = "user_severity_not_emitted" if (len(key) > 2 and key[2] and ("cannot be read back" in why or "crashes" in why or "differ" in why)) else "round_trip"
            c.findings.append(Finding("bounded", "oc:" + kind, "style=%s seed=%s: %s" % (key[0], key[1], why), {"style": key[0], "seed": key[1], "observed": probs}, "style=%s seed=%s" % (key[0], key[1])))
    return c.finish({"explanation": META["text"]})
