# -*- coding: utf-8 -*-
"""C17 — The emitted configuration reproduces the run."""
from bounded import cli, corpus
from pyvc.checklib import Check, Finding, run_selftest
from pyvc.engine import Engine

META = {
    "level": "other",
    "technique": "contract-based deductive verification (pyvc) of the two ends of the round trip for one rule -- Rule.get_configuration (what is emitted) and configure_rule_attributes / Rule.configure (what reading it back does) -- over dictionary objects with a universally quantified attribute name; the whole -oc / -rc path (rule_list.get_configuration, JSON / YAML serialisation, config.New, indent and severity sections) by a bounded stand-in through the real CLI",
    "text": "Proved for every rule object and every attribute name ga: get_configuration returns a fresh dictionary whose keys are exactly the names of rule.configuration plus 'severity', with result[ga] the very value the rule holds (nothing is converted on the way out) and the rule untouched; configure_rule_attributes writes RL[ga] into every attribute the rule has and into the option objects, the rule-id section having the last word in Rule.configure (C12). Substituting the first result for RL gives the identity on the rule's attributes -- this one-line composition of the two machine-checked contracts is NOT itself machine-checked (no function of /repo performs it in one piece). BOUNDED: oc(oc(s,c)) == oc(s,c) as JSON, and for sample inputs the violations, exit status, fixed text and effective rule states under the emitted configuration equal those under the original style + configuration, for every top-level configuration section.",
    "note": "Assumption A10 (r.x is r.__dict__['x']); every name of rule.configuration is an attribute of the rule (precondition, true of the 1,049 real rule objects: observed by the bounded part). JSON / YAML round trip of values (yes/no vs booleans) is outside the contracts and is what the bounded part exercises.",
}

QUALS = ["vsg.rule.Rule.get_configuration", "vsg.rule.configure_rule_attributes", "vsg.rule.Rule.configure"]


def run():
    c = Check("C17", "other")
    c.engine = Engine()
    c.deductive(QUALS)
    styles = [None, "jcl", "indent_only"]
    n = 6 if c.tier == "quick" else 60
    sample = corpus.sample(2 if c.tier == "quick" else 6, c.seed + 17)
    jobs = [(styles[i % 3], c.seed * 100 + i, sample) for i in range(n)]
    res = corpus.pmap(cli.c17_case, jobs, chunksize=1)
    c.bounded["oc_round_trip"] = {"evaluations": len(res) * (2 + 4 * len(sample)), "distinct_nontrivial": len(res), "rule": "style x seeded configuration stack (per-rule, global, group, optionally a user-defined severity): -oc, -oc of the result, and check + fix of sample files under both; non-trivial = distinct stack"}
    for key, probs in res:
        for why in probs[:1]:
            kind = "user_severity_not_emitted" if (len(key) > 2 and key[2] and ("cannot be read back" in why or "crashes" in why or "differ" in why)) else "round_trip"
            c.findings.append(Finding("bounded", "oc:" + kind, "style=%s seed=%s: %s" % (key[0], key[1], why), {"style": key[0], "seed": key[1], "observed": probs}, "style=%s seed=%s" % (key[0], key[1])))
    fsample = corpus.sample(4, c.seed + 171)
    fres = corpus.pmap(cli.c17_files_case, [(styles[i % 3], c.seed * 100 + 50 + i, fsample[i % 2 :] + fsample[: i % 2]) for i in range(3 if c.tier == "quick" else 30)], chunksize=1)
    c.bounded["oc_with_files"] = {"evaluations": 4 * len(fres), "distinct_nontrivial": len(fres), "rule": "-oc of a run over files named './x', 'sub/../y', 'sub//z' with a file_rules entry for the first one: the emitted configuration alone (files from its file_list) gives the same violations per file and the same exit status"}
    for key, probs in fres:
        for why in probs[:1]:
            c.findings.append(Finding("bounded", "oc:files", "style=%s seed=%s: %s" % (key[0], key[1], why), {"style": key[0], "seed": key[1], "observed": probs}, "style=%s seed=%s" % (key[0], key[1])))
    if c.tier == "thorough":
        run_selftest(c, ["mutants_emit.py"], lambda eng: QUALS[:1])
    c.trusted += ["assumed contract: %s — %s" % (q, ct["trusted"]) for q, ct in sorted(c.engine.contracts.items()) if ct.get("trusted") and ("severity" in q or "print_output" in q)]
    c.trusted.append("A10: attribute access r.x / getattr(r, name) is the dictionary entry r.__dict__[name] (Python semantics, not modelled: the contracts state the entries)")
    return c.finish({"explanation": META["text"]})
