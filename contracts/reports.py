# -*- coding: utf-8 -*-
"""Contracts for the report builders of vsg/rule_list.py that walk rule.violations independently (C14): the JSON entries
and the JUnit failure lines are counted against the same spec functions of the rule list, so they describe the same set."""
RULE = "obj:vsg.rule.Rule"
VIOL = "obj:vsg.violation.New"

HOMS = {
    # number of violations held by a list of rules; and by its error-severity rules (what JUnit lists, what sets the exit flag)
    "n_viol": dict(elem=RULE, ctx=[], result="int", unit="len(x.violations)"),
    "n_err_viol": dict(elem=RULE, ctx=[], result="int", unit="(len(x.violations) if x.severity.type == 'error' else 0)"),
}

FAIL = "obj:vsg.junit.failure"
FIELDS = {
    "vsg.junit.failure.text": "opt[list[str]]",
    "vsg.junit.failure.type": "str",
    "vsg.junit.testcase.failures": "opt[list[obj:vsg.junit.failure]]",
    "vsg.junit.testcase.name": "opt[str]",
    "vsg.junit.testcase.time": "opt[str]",
    "vsg.violation.New.sSolution": "str",
    "vsg.rule.Rule.name": "str",
    "vsg.rule.Rule.identifier": "str",
}

CONTRACTS = {
    "vsg.rule_list.rule_list.extract_violation_dictionary": dict(
        record_locals=["dReturn"],
        returns="rec{violations:list[obj:builtins.dict]}",
        locals={"oRule": RULE, "oViolation": VIOL, "dReturn['violations']": "list[obj:builtins.dict]"},
        modifies=[],
        ensures=[
            # one JSON entry per violation of every rule, whatever its severity
            "len(result['violations']) == n_viol(self.rules)",
        ],
        loops={
            1: dict(invariant=["len(dReturn['violations']) == n_viol(self.rules[:_i])"]),
            2: dict(invariant=["len(dReturn['violations']) == n_viol(self.rules[:_i1]) + _i"]),
        },
    ),
    "vsg.junit.failure.add_text": dict(
        types={"sText": "str"},
        modifies=["self.text"],
        ensures=["self.text is not None", "self.text == (old(self.text) if old(self.text) is not None else []) + [sText]"],
    ),
    "vsg.junit.failure.has_text": dict(returns="bool", ensures=["result == (self.text is not None)"]),
    "vsg.junit.testcase.add_failure": dict(
        types={"oFailure": FAIL},
        modifies=["self.failures"],
        ensures=["self.failures is not None", "self.failures == (old(self.failures) if old(self.failures) is not None else []) + [oFailure]"],
    ),
    "vsg.rule_list.rule_list.extract_junit_testcase": dict(
        types={"sVhdlFileName": "str"},
        returns="obj:vsg.junit.testcase",
        locals={"oRule": RULE, "dViolation": VIOL},
        modifies=[],
        ensures=[
            # the JUnit test case lists exactly the violations of the error-severity rules (one text line each), in one failure
            # element, and no failure element at all when there is none: the same number that sets the exit flag
            "implies(n_err_viol(self.rules) == 0, result.failures is None)",
            "implies(n_err_viol(self.rules) > 0, result.failures is not None and len(result.failures) == 1 and result.failures[0].text is not None and len(result.failures[0].text) == n_err_viol(self.rules))",
        ],
        loops={
            1: dict(invariant=["(oFailure.text is None and n_err_viol(self.rules[:_i]) == 0) or (oFailure.text is not None and len(oFailure.text) == n_err_viol(self.rules[:_i]) and n_err_viol(self.rules[:_i]) > 0)", "oTestcase.failures is None"]),
            2: dict(invariant=["(oFailure.text is None and n_err_viol(self.rules[:_i1]) + _i == 0) or (oFailure.text is not None and len(oFailure.text) == n_err_viol(self.rules[:_i1]) + _i and n_err_viol(self.rules[:_i1]) + _i > 0)", "oTestcase.failures is None"]),
        },
    ),
}
