# -*- coding: utf-8 -*-
"""Contracts for the token-list kernel: vsg/vhdlFile/vhdlFile.py (split_on_carriage_return, get_lines,
remove_beginning_of_file_tokens), vsg/vhdlFile/extract/tokens.py (regions), vsg/vhdlFile/utils.py (navigation
primitives, text of a token list).  Serves C04b, C05, C07, C18, C19."""

ITEM = "obj:vsg.parser.item"
TOI = "obj:vsg.vhdlFile.extract.tokens.New"

VIOL = "obj:vsg.violation.New"
S_ = "lUpdates[{k}].oTokens.iStartIndex"
E_ = "lUpdates[{k}].oTokens.iEndIndex"
P_UPDATE = [
    # regions lie inside the list, are well-formed, ascending and disjoint (in list order)
    "forall(lambda k: 0 <= %s and %s <= %s and %s <= len(self.lAllObjects), 0, len(lUpdates))" % (S_.format(k="k"), S_.format(k="k"), E_.format(k="k"), E_.format(k="k")),
    "forall(lambda k: %s <= %s, 0, len(lUpdates) - 1)" % (E_.format(k="k"), S_.format(k="k + 1")),
]

FIELDS = {
    "vsg.vhdlFile.vhdlFile.vhdlFile.oTokenMap": "obj:vsg.token_map.New",
    "vsg.violation.New.oTokens": "obj:vsg.vhdlFile.extract.tokens.New",
    "vsg.parser.item.lower_value": "str",
    "vsg.vhdlFile.extract.tokens.New.iStartIndex": "int",
    "vsg.vhdlFile.extract.tokens.New.iEndIndex": "int",
    "vsg.vhdlFile.extract.tokens.New.iLine": "int",
    "vsg.vhdlFile.extract.tokens.New.sTokenValue": "opt[str]",
    "vsg.vhdlFile.extract.tokens.New.dMetaData": "obj:builtins.dict",
    "vsg.vhdlFile.vhdlFile.vhdlFile.lAllObjects": "list[%s]" % ITEM,
}

HOMS = {
    # text of a token list, number of line breaks, tokens that are not the beginning-of-file marker
    "text": dict(elem=ITEM, ctx=[], result="str", unit="x.value"),
    "ncr": dict(elem=ITEM, ctx=[], result="int", unit="(1 if isinstance(x, parser.carriage_return) else 0)"),
    "nonbof": dict(elem=ITEM, ctx=[], result="list[%s]" % ITEM, unit="([] if isinstance(x, parser.beginning_of_file) else [x])"),
    "n_nonbof": dict(elem=ITEM, ctx=[], result="int", unit="(0 if isinstance(x, parser.beginning_of_file) else 1)"),
    "raw_items": dict(elem=ITEM, ctx=[], result="int", unit="(1 if type(x) == parser.item else 0)"),
}

CONTRACTS = {
    "vsg.token_map.process_tokens": dict(
        types={"lTokens": "list[%s]" % ITEM},
        returns="obj:vsg.token_map.New",
        ensures=["result == INDEX(lTokens)"],
        trusted="stub: process_tokens builds the index of the list it is given (its dictionary-of-dictionaries body is outside the verifier's subset; index == recomputation is checked at every analysis by the bounded layer of C18)",
    ),
    "vsg.vhdlFile.vhdlFile.vhdlFile.update": dict(
        types={"lUpdates": "list[%s]" % VIOL, "bUpdateMap": "bool"},
        # P_update is a hypothesis of the splice clauses, not a precondition: whether each rule's analysis yields
        # ascending, disjoint regions is not provable in general (nested pairs, see known findings) and is
        # observed by the bounded layer of C18 instead
        assume=P_UPDATE,
        modifies=["self.lAllObjects", "self.oTokenMap", "ghost:oplog"],
        ghost_exit={"oplog": "oplog + ['U']"},
        assume_free=["oplog == old(oplog) + ['U']", "implies(not bUpdateMap, self.oTokenMap == old(self.oTokenMap))", "implies(len(lUpdates) > 0 and bUpdateMap, self.oTokenMap == INDEX(self.lAllObjects))"],
        ensures=[
            "oplog == old(oplog) + ['U']",
            "implies(len(lUpdates) == 0, self.lAllObjects == old(self.lAllObjects) and self.oTokenMap == old(self.oTokenMap))",
            # everything in front of the first region keeps its place and identity
            "implies(len(lUpdates) > 0, self.lAllObjects[:%s] == old(self.lAllObjects)[:%s])" % (S_.format(k="0"), S_.format(k="0")),
            # one region: the list is exactly the splice; the tokens that were analysed are overwritten and no others
            "implies(len(lUpdates) == 1, self.lAllObjects == old(self.lAllObjects)[:%s] + nonbof(lUpdates[0].oTokens.lTokens) + old(self.lAllObjects)[%s:])" % (S_.format(k="0"), E_.format(k="0")),
            # the index is rebuilt from the new list exactly when the rule asks for it
            "implies(len(lUpdates) > 0 and bUpdateMap, self.oTokenMap == INDEX(self.lAllObjects))",
            "implies(not bUpdateMap, self.oTokenMap == old(self.oTokenMap))",
        ],
        loops={
            1: dict(
                invariant=[
                    "implies(_i < len(lUpdates), self.lAllObjects[:%s] == old(self.lAllObjects)[:%s])" % (E_.format(k="len(lUpdates) - 1 - _i"), E_.format(k="len(lUpdates) - 1 - _i")),
                    "implies(_i > 0, self.lAllObjects[:%s] == old(self.lAllObjects)[:%s])" % (S_.format(k="len(lUpdates) - _i"), S_.format(k="len(lUpdates) - _i")),
                    "implies(_i == 0, self.lAllObjects == old(self.lAllObjects))",
                    "implies(_i == 1 and len(lUpdates) == 1, self.lAllObjects == old(self.lAllObjects)[:%s] + nonbof(lUpdates[0].oTokens.lTokens) + old(self.lAllObjects)[%s:])" % (S_.format(k="0"), E_.format(k="0")),
                    "len(self.lAllObjects) >= %s" % "0",
                ]
            )
        },
    ),
    "vsg.vhdlFile.utils.convert_token_list_to_string": dict(
        types={"lTokens": "list[%s]" % ITEM},
        returns="str",
        ensures=["result == text(lTokens)"],
        loops={1: dict(invariant=["sReturn == text(lTokens[:_i])"])},
    ),
    "vsg.vhdlFile.utils.count_carriage_returns": dict(
        types={"lTokens": "list[%s]" % ITEM},
        returns="int",
        ensures=["result == ncr(lTokens)"],
        loops={1: dict(invariant=["iReturn == ncr(lTokens[:_i])"])},
    ),
    "vsg.vhdlFile.vhdlFile.remove_beginning_of_file_tokens": dict(
        types={"lTokens": "list[%s]" % ITEM},
        returns="list[%s]" % ITEM,
        locals={"lReturn": "list[%s]" % ITEM},
        ensures=["result == nonbof(lTokens)"],
        loops={1: dict(invariant=["lReturn == nonbof(lTokens[:_i])"])},
    ),
    "vsg.vhdlFile.extract.tokens.calculate_end_index": dict(
        types={"iStartIndex": "int", "lTokens": "list[%s]" % ITEM},
        returns="int",
        # the region [iStartIndex, iEndIndex) has as many positions as the region has real tokens
        ensures=["result == iStartIndex + n_nonbof(lTokens)"],
        loops={1: dict(invariant=["iReturn == iStartIndex + n_nonbof(lTokens[:_i])"])},
    ),
    "vsg.vhdlFile.extract.tokens.New.extract_tokens": dict(
        types={"iStart": "int", "iEnd": "int"},
        requires=["0 <= iStart", "iStart <= len(self.lTokens)"],
        returns=TOI,
        ensures=[
            # the sub-region is the slice, its start index is shifted by the number of skipped tokens and its
            # line by the number of line breaks skipped
            "result.lTokens == self.lTokens[iStart:iEnd + 1]",
            "result.iStartIndex == self.iStartIndex + iStart",
            "result.iLine == self.iLine + ncr(self.lTokens[:iStart])",
        ],
        loops={1: dict(invariant=["iLine == self.iLine + ncr(self.lTokens[:_i])"])},
        modifies=[],
    ),
    "vsg.vhdlFile.utils.find_next_token": dict(
        types={"iToken": "int", "lObjects": "list[%s]" % ITEM},
        requires=["0 <= iToken"],
        returns="int",
        ensures=[
            # the next raw (unclassified) item at or after iToken; everything skipped is already classified,
            # whatever it is (whitespace, comments, line breaks): layout does not influence the result
            "result >= iToken",
            "implies(result < len(lObjects) and type(lObjects[result]) == parser.item, raw_items(lObjects[iToken:result]) == 0)",
            "implies(not (result < len(lObjects) and type(lObjects[result]) == parser.item), result == iToken and raw_items(lObjects[iToken:]) == 0)",
        ],
        loops={1: dict(invariant=["raw_items(lObjects[iToken:iToken + _i]) == 0"])},
    ),
    "vsg.vhdlFile.utils.is_item": dict(
        types={"lAllObjects": "list[%s]" % ITEM, "iToken": "int"},
        requires=["0 <= iToken"],
        # an index at or beyond the end of the list is an IndexError (as for object_value_is)
        raises=["IndexError"],
        raises_when={"IndexError": "iToken >= len(lAllObjects)"},
        returns="bool",
        ensures=["result == (type(lAllObjects[iToken]) == parser.item)"],
    ),
    "vsg.vhdlFile.utils.object_value_is": dict(
        types={"lAllObjects": "list[%s]" % ITEM, "iToken": "int", "sString": "str"},
        requires=["0 <= iToken"],
        # an index at or beyond the end of the list is an IndexError (what a look-ahead past the end of a malformed file does)
        raises=["IndexError"],
        raises_when={"IndexError": "iToken >= len(lAllObjects)"},
        returns="bool",
        # keyword tests are case-insensitive: they compare the lower-cased value
        ensures=["result == (lAllObjects[iToken].lower_value == sString.lower())"],
    ),
}


def install(engine):
    from pyvc.symex import UFS
    from pyvc.terms import REF, App, Seq
    from pyvc.values import ObjV

    UFS["INDEX"] = ([Seq(REF)], REF)

    def INDEX(run, st, args, node):
        return ObjV(App("INDEX", (run.raw(st, args[0]),), REF), "vsg.token_map.New")

    engine.spec_funcs["INDEX"] = INDEX

HOMS.update(
    {
        # text of a token list with one "\n" per carriage_return token, and of a list of lines
        "textnl": dict(elem=ITEM, ctx=[], result="str", unit="('\\n' if isinstance(x, parser.carriage_return) else x.value)"),
        "linescr": dict(elem="list[%s]" % ITEM, ctx=[], result="str", unit="text(x) + '\\n'"),
        "joinnl": dict(elem="str", ctx=[], result="str", unit="x + '\\n'"),
        "n_cr_in": dict(elem="list[%s]" % ITEM, ctx=[], result="int", unit="ncr(x)"),
    }
)

ENDS_WITH_CR = "len({T}) == 0 or isinstance({T}[len({T}) - 1], parser.carriage_return)"

CONTRACTS.update(
    {
        "vsg.vhdlFile.vhdlFile.split_on_carriage_return": dict(
            types={"lObjects": "list[%s]" % ITEM},
            requires=[ENDS_WITH_CR.format(T="lObjects")],
            returns="list[list[%s]]" % ITEM,
            locals={"lReturn": "list[list[%s]]" % ITEM, "lMyObjects": "list[%s]" % ITEM},
            ensures=[
                # the lines, each followed by a line break, spell exactly the token list; no line contains a line break
                "linescr(result) == textnl(lObjects)",
                "n_cr_in(result) == 0",
                "len(result) == ncr(lObjects)",
            ],
            loops={
                1: dict(
                    invariant=[
                        "linescr(lReturn) + text(lMyObjects) == textnl(lObjects[:_i])",
                        "n_cr_in(lReturn) == 0 and ncr(lMyObjects) == 0",
                        "len(lReturn) == ncr(lObjects[:_i])",
                        "implies(_i > 0 and isinstance(lObjects[_i - 1], parser.carriage_return), len(lMyObjects) == 0)",
                        "implies(_i == 0, len(lMyObjects) == 0)",
                        "iLine == 1 + len(lReturn)",
                    ]
                )
            },
        ),
        "vsg.vhdlFile.vhdlFile.vhdlFile.get_lines": dict(
            requires=[ENDS_WITH_CR.format(T="self.lAllObjects")],
            returns="list[str]",
            locals={"lReturn": "list[str]"},
            ensures=[
                # emitting: line k+1 is the concatenation of the values of the tokens of line k, nothing added or lost
                "len(result) == 1 + ncr(self.lAllObjects)",
                "result[0] == ''",
                "joinnl(result[1:]) == textnl(self.lAllObjects)",
            ],
            defines=["result == LINES(self)"],
            # (the invariant speaks about the whole list, whose first element is the empty line 0: appending then needs no slice of a growing list)
            loops={1: dict(invariant=["len(lReturn) == 1 + _i", "lReturn[0] == ''", "joinnl(lReturn) == '\\n' + linescr(_it[:_i])"])},
        ),
    }
)

FIELDS.update({"vsg.parser.item.has_tab": "bool", "vsg.parser.item.indent": "opt[int]", "vsg.parser.item.iId": "opt[int]"})
HOMS["values"] = dict(elem=ITEM, ctx=[], result="list[str]", unit="[x.value]")

CONTRACTS.update(
    {
        # line classifiers: they replace raw items one for one and keep every value (C04b: parsing is lossless)
        "vsg.vhdlFile.classify.whitespace.classify": dict(
            types={"lTokens": "list[str]", "lObjects": "list[%s]" % ITEM},
            requires=["values(lObjects) == lTokens", "forall(lambda k: len(lTokens[k]) >= 1, 0, len(lTokens))"],
            modifies=["lObjects", "heap:item.has_tab"],
            ensures=["values(lObjects) == lTokens", "len(lObjects) == len(lTokens)"],
            loops={1: dict(invariant=["values(lObjects) == lTokens", "len(lObjects) == len(lTokens)"])},
        ),
    }
)

WSC = "(parser.whitespace, parser.carriage_return, parser.comment, parser.blank_line, parser.preprocessor)"
HOMS["n_solid"] = dict(elem=ITEM, ctx=[], result="int", unit="(0 if isinstance(x, %s) else 1)" % WSC)

CONTRACTS.update(
    {
        "vsg.vhdlFile.utils.token_is_whitespace_or_comment": dict(
            types={"oToken": ITEM},
            returns="bool",
            ensures=[
                "result == isinstance(oToken, %s)" % WSC,
                # synthesis pragmas and delimited-comment delimiters are comments: layout look-around skips them too
                "implies(isinstance(oToken, token.pragma.pragma), result)",
                "implies(isinstance(oToken, token.delimited_comment.beginning) or isinstance(oToken, token.delimited_comment.ending), result)",
            ],
        ),
        "vsg.vhdlFile.utils.find_next_non_whitespace_token": dict(
            types={"iToken": "int", "lObjects": "list[%s]" % ITEM},
            requires=["0 <= iToken"],
            returns="int",
            ensures=[
                # the first token at or after iToken that is not white space, a comment, a pragma or a preprocessor line;
                # how many of those lie in between does not matter
                "result >= iToken",
                "implies(result < len(lObjects) and not isinstance(lObjects[result], %s), n_solid(lObjects[iToken:result]) == 0)" % WSC,
                "implies(not (result < len(lObjects) and not isinstance(lObjects[result], %s)), result == iToken and n_solid(lObjects[iToken:]) == 0)" % WSC,
            ],
            loops={1: dict(invariant=["n_solid(lObjects[iToken:iToken + _i]) == 0"])},
        ),
    }
)

NBL = "(parser.whitespace, parser.carriage_return, parser.blank_line)"
HOMS["nonblank"] = dict(elem=ITEM, ctx=[], result="list[%s]" % ITEM, unit="([] if isinstance(x, %s) else [x])" % NBL)
HOMS["crs"] = dict(elem=ITEM, ctx=[], result="list[%s]" % ITEM, unit="([x] if isinstance(x, parser.carriage_return) else [])")
HOMS["n_blank"] = dict(elem=ITEM, ctx=[], result="int", unit="(1 if isinstance(x, parser.blank_line) else 0)")

CONTRACTS.update(
    {
        # the normalisers that run after phase 1 (C01, C02, C08): they only add blank_line markers and drop white space
        "vsg.vhdlFile.utils.fix_blank_lines": dict(
            types={"lTokens": "list[%s]" % ITEM},
            returns="list[%s]" % ITEM,
            locals={"lReturn": "list[%s]" % ITEM},
            ensures=[
                # every code token, comment, pragma and preprocessor line is still there: same objects, same order
                "nonblank(result) == nonblank(lTokens)",
                # and so is every line break
                "crs(result) == crs(lTokens)",
            ],
            loops={1: dict(invariant=["nonblank(lReturn) == nonblank(lTokens[:_i])", "crs(lReturn) == crs(lTokens[:_i])"])},
        ),
        "vsg.vhdlFile.utils.fix_trailing_whitespace": dict(
            types={"lTokens": "list[%s]" % ITEM},
            returns="list[%s]" % ITEM,
            locals={"lReturn": "list[%s]" % ITEM},
            ensures=[
                "nonblank(result) == nonblank(lTokens)",
                "crs(result) == crs(lTokens)",
                "n_blank(result) == n_blank(lTokens)",
            ],
            loops={
                1: dict(
                    invariant=[
                        "nonblank(lReturn) == nonblank(lTokens[:_i])",
                        "crs(lReturn) == crs(lTokens[:_i])",
                        "n_blank(lReturn) == n_blank(lTokens[:_i])",
                        "implies(_i > 0, len(lReturn) > 0 and lReturn[len(lReturn) - 1] == lTokens[_i - 1])",
                        "implies(_i == 0, len(lReturn) == 0)",
                    ]
                )
            },
        ),
    }
)

# ---------------------------------------------------------------------------------------------- parser loops (C19: no hang)
# The statement-part loops of the parser terminate because of their no-progress guard.  `element` is a classifier module
# (concurrent_statement, sequential_statement, ...): its detect/classify are virtual here; ASSUMED: they never return an index
# in front of the one they were given nor beyond the list, keep the length of the list, and classify() consumes something.
CLASSIFIER = "obj:classifier"
CONTRACTS.update(
    {
        "classifier.detect": dict(
            external=True,
            params=["self", "iToken", "lObjects"],
            types={"iToken": "int", "lObjects": "list[%s]" % ITEM},
            returns="int",
            modifies=["lObjects"],
            raises=["ClassifyError", "IndexError"],
            ensures=["result >= iToken", "result <= len(lObjects) or result == iToken", "len(lObjects) == len(old(lObjects))"],
            trusted="abstract contract of a virtual classifier entry point (a module passed as a parameter)",
        ),
        "classifier.classify": dict(
            external=True,
            params=["self", "iToken", "lObjects"],
            types={"iToken": "int", "lObjects": "list[%s]" % ITEM},
            returns="int",
            modifies=["lObjects"],
            raises=["ClassifyError", "IndexError"],
            ensures=["result > iToken", "result <= len(lObjects)", "len(lObjects) == len(old(lObjects))"],
            trusted="abstract contract of a virtual classifier entry point: classify() consumes at least one token or raises",
        ),
        "vsg.vhdlFile.utils.detect_subelement_until": dict(
            types={"sToken": "str", "element": CLASSIFIER, "iToken": "int", "lObjects": "list[%s]" % ITEM},
            requires=["0 <= iToken", "iToken <= len(lObjects)"],
            returns="int",
            modifies=["lObjects"],
            raises=["ClassifyError", "IndexError"],
            ensures=["result >= iToken"],
            # total: every iteration either returns or moves strictly forward in a list of fixed length
            loops={1: dict(invariant=["iToken <= iCurrent", "iCurrent <= len(lObjects)", "len(lObjects) == len(old(lObjects))"], decreases="len(lObjects) - iCurrent")},
        ),
        "vsg.vhdlFile.utils.classify_subelement_until": dict(
            types={"sToken": "str", "element": CLASSIFIER, "iToken": "int", "lObjects": "list[%s]" % ITEM},
            requires=["0 <= iToken", "iToken <= len(lObjects)"],
            returns="int",
            modifies=["lObjects"],
            raises=["ClassifyError", "IndexError"],
            ensures=["result >= iToken"],
            loops={1: dict(invariant=["iToken <= iCurrent", "iCurrent <= len(lObjects)", "len(lObjects) == len(old(lObjects))"], decreases="len(lObjects) - iCurrent")},
        ),
    }
)

# ---------------------------------------------------------------------------------------------- single-line comments (C02 / C04)
# When the classifier meets '--' outside a delimited comment, the rest of the line (up to trailing white space) becomes ONE
# comment token: no character of the line is lost or duplicated (text(line) unchanged), everything in front of the comment is
# untouched, and the comment's value is exactly the concatenation of the tokens it replaces.
OPT = "obj:vsg.vhdlFile.vhdlFile.options"
CONTRACTS.update(
    {
        "vsg.vhdlFile.classify.comment.classify_single_line_comment": dict(
            types={"iToken": "int", "lObjects": "list[%s]" % ITEM, "oOptions": OPT},
            fields={"vsg.vhdlFile.vhdlFile.options.bInsideDelimitedComment": "bool", "vsg.parser.comment.is_block_comment": "bool", "vsg.parser.comment.block_comment_indent": "opt[int]", "vsg.parser.comment.has_tab": "bool"},
            requires=["0 <= iToken", "iToken < len(lObjects)"],
            returns="bool",
            modifies=["lObjects", "heap:comment.has_tab", "heap:item.has_tab"],
            ensures=[
                "text(lObjects) == old(text(lObjects))",
                # everything in front of the comment is untouched
                "forall(lambda k: lObjects[k] is old(lObjects)[k], 0, iToken)",
                "implies(not result, lObjects == old(lObjects))",
                # a comment starts exactly at a token that begins with '--' outside a delimited comment
                "result == (not oOptions.bInsideDelimitedComment and old(lObjects[iToken].value).startswith('--'))",
                "implies(result, isinstance(lObjects[iToken], parser.comment) and len(lObjects) <= iToken + 2)",
                # the comment token spells exactly what it replaces: with whatever follows it (at most the trailing white space,
                # the same object as before) it is the text from the '--' on
                "implies(result, lObjects[iToken].value + text(lObjects[iToken + 1:]) == old(text(lObjects[iToken:])))",
                "implies(result and len(lObjects) == iToken + 2, lObjects[iToken + 1] is old(lObjects[len(lObjects) - 1]))",
            ],
            loops={
                1: dict(invariant=["sToken == text(lObjects[iToken:iToken + 1 + _i])", "iEndIndex == len(lObjects) or iEndIndex == len(lObjects) - 1"]),
                2: dict(invariant=["lObjects == entry(lObjects)[:iToken + 1] + entry(lObjects)[iToken + 1 + _i:]"]),
            },
        ),
    }
)

# ---------------------------------------------------------------------------------------------- the eight "part" loops (C19: no hang)
# <x>_part.detect repeats <x>_item.detect until it makes no progress.  The item detectors (each a large dispatcher over the
# classifiers of one syntactic category) have generated contracts (contracts/parser.py): they never return an index in front of the
# one they were given nor beyond the list, and keep the length of the list.  PROVED here: the part loops terminate and have the
# same shape.
PART_ITEMS = {
    "configuration_declarative_part": "configuration_declarative_item",
    "package_body_declarative_part": "package_body_declarative_item",
    "package_declarative_part": "package_declarative_item",
    "process_declarative_part": "process_declarative_item",
    "process_statement_part": "sequential_statement",
    "sequence_of_statements": "sequential_statement",
    "subprogram_declarative_part": "subprogram_declarative_item",
    "subprogram_statement_part": "sequential_statement",
}
for _part, _item in sorted(PART_ITEMS.items()):
    CONTRACTS["vsg.vhdlFile.classify.%s.detect" % _part] = dict(
        types={"iToken": "int", "lObjects": "list[%s]" % ITEM},
        requires=["0 <= iToken", "iToken <= len(lObjects)"],
        returns="int",
        modifies=["lObjects"],
        raises=["ClassifyError", "IndexError"],
        ensures=["result >= iToken", "result <= len(lObjects)", "len(lObjects) == len(old(lObjects))"],
        # an iteration either moves strictly forward in a list of fixed length, or makes iLast == iCurrent (and is the last one)
        loops={1: dict(invariant=["iToken <= iCurrent", "iCurrent <= len(lObjects)", "len(lObjects) == len(old(lObjects))"], decreases="2 * (len(lObjects) - iCurrent) + (1 if iLast != iCurrent else 0)")},
    )
