# -*- coding: utf-8 -*-
"""Contracts for /repo/vsg/tokens.py  (property C04a: join(tokenize(s)) == s for ALL strings,
and C19: the tokenizer raises nothing).

Top-level postcondition (from the property statement): J(create(s)) == s.
Everything else (helper preconditions, loop invariants) is derived from the code.
"""

DEFAULT_LIST = {"vsg.tokens": "list[str]"}

FIELDS = {
    "vsg.tokens.New.lChars": "list[str]",
}

PAIRS_OK = "forall(lambda k: len({p}[k]) >= 2 and 0 <= {p}[k][0] and {p}[k][0] <= {p}[k][1] + 1, 0, len({p}))"

KEEP = dict(
    modifies=["self.lChars"],
    ensures=["J(self.lChars) == J(old(self.lChars))"],
)

CONTRACTS = {
    "vsg.tokens.create": dict(
        types={"sString": "str"},
        returns="list[str]",
        ensures=["J(result) == sString"],
    ),
    "vsg.tokens.convert_string_to_chars": dict(
        types={"sString": "str"},
        returns="list[str]",
        ensures=["J(result) == sString"],
        loops={1: dict(invariant=["J(lReturn) == sString[:_i]"])},
    ),
    "vsg.tokens.New.combine_whitespace": dict(
        loops={1: dict(invariant=["J(lReturn) + sSpace == J(self.lChars[:_i])", "sSpace == '' or isspace(sSpace)"])},
        **KEEP
    ),
    "vsg.tokens.New.combine_backslash_characters_into_symbols": dict(
        loops={1: dict(invariant=["J(lReturn) + sSymbol == J(self.lChars[:_i])", "bSymbol or sSymbol == ''"])},
        **KEEP
    ),
    "vsg.tokens.New.combine_three_character_symbols": dict(
        loops={1: dict(invariant=["0 <= i", "J(lReturn) == J(self.lChars[:i])"], decreases="len(self.lChars) - i")},
        **KEEP
    ),
    "vsg.tokens.New.combine_two_character_symbols": dict(
        loops={1: dict(invariant=["0 <= i", "J(lReturn) == J(self.lChars[:i])"], decreases="len(self.lChars) - i")},
        **KEEP
    ),
    "vsg.tokens.New.combine_characters_into_words": dict(
        loops={1: dict(invariant=["J(lReturn) + sTemp == J(self.lChars[:_i])"])},
        **KEEP
    ),
    "vsg.tokens.New.combine_string_literals": dict(**KEEP),
    "vsg.tokens.New.combine_character_literals": dict(**KEEP),
    "vsg.tokens.New.split_natural_numbers": dict(
        loops={1: dict(invariant=["J(lReturn) == J(self.lChars[:_i])"])},
        **KEEP
    ),
    "vsg.tokens.New.split_bit_string_literal_integer_and_base_specifier": dict(
        loops={1: dict(invariant=["J(lReturn) == J(self.lChars[:_i])"])},
        **KEEP
    ),
    "vsg.tokens.parse_bit_string_literal_integer_and_base_specifier": dict(
        types={"sIntegerAndBaseSpecifier": "str"},
        requires=[
            "len(sIntegerAndBaseSpecifier) >= 1",
            "not isdigit(sIntegerAndBaseSpecifier[len(sIntegerAndBaseSpecifier) - 1])",
        ],
        returns="list[str]",
        ensures=["J(result) == sIntegerAndBaseSpecifier"],
    ),
    "vsg.tokens.get_bit_string_literal_integer_and_base_specifier_split_index": dict(
        types={"sIntegerAndBaseSpecifier": "str"},
        requires=[
            "len(sIntegerAndBaseSpecifier) >= 1",
            "not isdigit(sIntegerAndBaseSpecifier[len(sIntegerAndBaseSpecifier) - 1])",
        ],
        returns="int",
        ensures=["0 <= result", "result < len(sIntegerAndBaseSpecifier)"],
        loops={1: dict(invariant=["forall(lambda k: isdigit(sIntegerAndBaseSpecifier[k]), 0, _i)"])},
    ),
    "vsg.tokens.is_natural_number": dict(
        types={"sString": "str"},
        returns="bool",
        loops={1: dict(invariant=[])},
    ),
    "vsg.tokens.parse_natural_number": dict(
        types={"sString": "str"},
        returns="list[str]",
        ensures=["J(result) == sString"],
        loops={1: dict(invariant=["J(lReturn) + sTemp == sString[:_i]"])},
    ),
    "vsg.tokens.combine_quote_pairs": dict(
        types={"lQuotePairs": "list[list[int]]", "self": "obj:vsg.tokens.New"},
        requires=[PAIRS_OK.format(p="lQuotePairs")],
        loops={1: dict(invariant=["J(self.lChars) == J(old(self.lChars))"])},
        **KEEP
    ),
    "vsg.tokens.find_character_literal_candidates": dict(
        types={"lQuotes": "list[int]", "lChars": "list[str]"},
        requires=[
            "forall(lambda k: 0 <= lQuotes[k] and lQuotes[k] < len(lChars), 0, len(lQuotes))",
            "forall(lambda k: lQuotes[k] < lQuotes[k + 1], 0, len(lQuotes) - 1)",
        ],
        returns="list[list[int]]",
        locals={"lReturn": "list[list[int]]"},
        ensures=[PAIRS_OK.format(p="result")],
        loops={1: dict(invariant=[PAIRS_OK.format(p="lReturn")])},
    ),
    "vsg.tokens.filter_character_literal_candidates": dict(
        types={"lLiterals": "list[list[int]]"},
        requires=["len(lLiterals) >= 1", PAIRS_OK.format(p="lLiterals")],
        returns="list[list[int]]",
        locals={"lReturn": "list[list[int]]"},
        ensures=[PAIRS_OK.format(p="result")],
        loops={1: dict(invariant=[PAIRS_OK.format(p="lReturn")])},
    ),
    "vsg.tokens.find_indexes_of_double_quote_pairs": dict(
        types={"lTokens": "list[str]"},
        returns="list[list[int]]",
        locals={"lReturn": "list[list[int]]"},
        ensures=[PAIRS_OK.format(p="result")],
        loops={1: dict(invariant=[PAIRS_OK.format(p="lReturn")])},
    ),
    "vsg.tokens.find_indexes_of_token_with_value": dict(
        types={"sValue": "str", "lTokens": "list[str]"},
        returns="list[int]",
        locals={"lReturn": "list[int]"},
        ensures=[
            "forall(lambda k: 0 <= result[k] and result[k] < len(lTokens), 0, len(result))",
            "forall(lambda k: result[k] < result[k + 1], 0, len(result) - 1)",
        ],
        loops={
            1: dict(
                invariant=[
                    "forall(lambda k: 0 <= lReturn[k] and lReturn[k] < _i, 0, len(lReturn))",
                    "forall(lambda k: lReturn[k] < lReturn[k + 1], 0, len(lReturn) - 1)",
                ]
            )
        },
    ),
}
