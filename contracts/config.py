# -*- coding: utf-8 -*-
"""Contracts for vsg/config.py (C12: later configuration files override earlier ones, key by key and rule by rule).

Dictionaries are objects with a key set and a key -> reference map; keys(d) is the sequence the dictionary is iterated in (it
holds exactly the keys of d).  Values are opaque references: what is proved is WHICH value ends up under which key."""

CONTRACTS = {
    "vsg.config.process_file_list_key": dict(
        types={"dConfig": "obj:builtins.dict", "tempConfiguration": "obj:builtins.dict", "sKey": "str", "sConfigFilename": "str"},
        returns="obj:builtins.dict",
        modifies=["heap:dict.__keys__", "heap:dict.__vals__"],
        ensures=["result is dConfig"],
        trusted="stub: merging of file_list entries (glob expansion, per-file dictionaries) is not modelled; process_config_file is verified for configuration files without a file_list section",
    ),
}

GHOSTS = {"gk": "str", "gr": "str"}

T = "tempConfiguration"
D = "dConfiguration"
# the shape two configuration files have after YAML / JSON loading: the rule sections are dictionaries, and the two files share
# nothing (they were loaded separately)
SHAPE = [
    "%s is not %s" % (D, T),
    "'file_list' not in %s" % T,
    "implies('rule' in %s, isinstance(%s['rule'], dict) and %s['rule'] is not %s and %s['rule'] is not %s)" % (T, T, T, D, T, T),
    "implies('rule' in %s, isinstance(%s['rule'], dict) and %s['rule'] is not %s and %s['rule'] is not %s and implies('rule' in %s, %s['rule'] is not %s['rule']))" % (D, D, D, T, D, D, T, D, T),
]
RSHAPE = "implies('rule' in dReturn, isinstance(dReturn['rule'], dict) and dReturn['rule'] is not %s and dReturn['rule'] is not dReturn and implies('rule' in %s, dReturn['rule'] is not %s['rule']))" % (T, T, T)
TSAME = "keys(%s) == old(keys(%s)) and implies('rule' in %s, %s['rule'] is old(%s['rule']) and keys(%s['rule']) == old(keys(%s['rule'])))" % (T, T, T, T, T, T, T)

CONTRACTS.update({
    # C12: later configuration files override earlier ones, section by section, and rule by rule inside the rule section.
    # gk is any top-level key, gr any key of the rule section (ghost constants nobody modifies: the clauses hold for all of them)
    "vsg.config.process_config_file": dict(
        types={"dConfiguration": "obj:builtins.dict", "tempConfiguration": "obj:builtins.dict", "sConfigFilename": "str"},
        requires=SHAPE + ["gk != 'rule'"],
        returns="obj:builtins.dict",
        modifies=["heap:dict.__keys__", "heap:dict.__vals__"],
        ensures=[
            "result is %s" % D,
            # a section of the later file replaces the earlier file's section of that name; the others stay
            "implies(gk in %s, gk in result and result[gk] is %s[gk])" % (T, T),
            "implies(not (gk in %s), (gk in result) == old(gk in %s) and implies(gk in result, result[gk] is old(%s[gk])))" % (T, D, D),
            # inside the rule section: a rule (or 'global' / 'group') the later file configures is taken from it, the others stay
            "implies('rule' in %s and gr in %s['rule'], 'rule' in result and gr in result['rule'] and result['rule'][gr] is %s['rule'][gr])" % (T, T, T),
            "implies('rule' in %s and not (gr in %s['rule']) and old('rule' in %s) and old(gr in %s['rule']), 'rule' in result and gr in result['rule'] and result['rule'][gr] is old(%s['rule'][gr]))" % (T, T, D, D, D),
            "implies(not ('rule' in %s) and old('rule' in %s), 'rule' in result and result['rule'] is old(%s['rule']))" % (T, D, D),
            # the later file itself is not changed
            TSAME,
            "implies('rule' in %s, forall(lambda j: %s['rule'][keys(%s['rule'])[j]] is old(%s['rule'][keys(%s['rule'])[j]]), 0, len(keys(%s['rule']))))" % (T, T, T, T, T, T),
        ],
        loops={
            1: dict(
                invariant=[
                    "dReturn is %s" % D,
                    RSHAPE,
                    TSAME,
                    "implies(gk in keys(%s)[:_i], gk in dReturn and dReturn[gk] is %s[gk])" % (T, T),
                    "implies(not (gk in keys(%s)[:_i]), (gk in dReturn) == old(gk in %s) and implies(gk in dReturn, dReturn[gk] is old(%s[gk])))" % (T, D, D),
                    "implies('rule' in keys(%s)[:_i] and gr in %s['rule'], 'rule' in dReturn and gr in dReturn['rule'] and dReturn['rule'][gr] is %s['rule'][gr])" % (T, T, T),
                    "implies('rule' in keys(%s)[:_i] and not (gr in %s['rule']) and old('rule' in %s) and old(gr in %s['rule']), 'rule' in dReturn and gr in dReturn['rule'] and dReturn['rule'][gr] is old(%s['rule'][gr]))" % (T, T, D, D, D),
                    "implies(not ('rule' in keys(%s)[:_i]), ('rule' in dReturn) == old('rule' in %s) and implies('rule' in dReturn, dReturn['rule'] is old(%s['rule']) and keys(dReturn['rule']) == old(keys(%s['rule'])) and implies(gr in dReturn['rule'], dReturn['rule'][gr] is old(%s['rule'][gr]))))" % (T, D, D, D, D),
                    "implies('rule' in %s, forall(lambda j: %s['rule'][keys(%s['rule'])[j]] is old(%s['rule'][keys(%s['rule'])[j]]), 0, len(keys(%s['rule']))))" % (T, T, T, T, T, T),
                ]
            ),
            2: dict(
                invariant=[
                    "dReturn is %s" % D,
                    RSHAPE,
                    TSAME,
                    "(gk in dReturn) == entry(gk in dReturn) and implies(gk in dReturn, dReturn[gk] is entry(dReturn[gk]))",
                    "implies(gr in keys(%s['rule'])[:_i], 'rule' in dReturn and gr in dReturn['rule'] and dReturn['rule'][gr] is %s['rule'][gr])" % (T, T),
                    "implies(not (gr in keys(%s['rule'])[:_i]) and entry('rule' in dReturn) and entry(gr in dReturn['rule']), 'rule' in dReturn and gr in dReturn['rule'] and dReturn['rule'][gr] is entry(dReturn['rule'][gr]))" % T,
                    "implies('rule' in %s, forall(lambda j: %s['rule'][keys(%s['rule'])[j]] is old(%s['rule'][keys(%s['rule'])[j]]), 0, len(keys(%s['rule']))))" % (T, T, T, T, T, T),
                ]
            ),
        },
    ),
})


def install(engine):
    from pyvc.values import ListV, Type

    def keys(run, st, args, node):
        d = run.as_dict(st, args[0], node)
        return ListV(run.new_cell(st, run.dict_keyseq(st, d)), Type("str"))

    engine.spec_funcs["keys"] = keys
