# -*- coding: utf-8 -*-
"""Contracts for vsg/config.py (C12: later configuration files override earlier ones, key by key and rule by rule).

Dictionaries are objects with a key set and a key -> reference map; keys(d) is the sequence the dictionary is iterated in (it
holds exactly the keys of d).  Values are opaque references: what is proved is WHICH value ends up under which key."""

CONTRACTS = {
    "vsg.config.process_file_list_key": dict(
        types={"dConfig": "obj:builtins.dict", "tempConfiguration": "obj:builtins.dict", "sKey": "str", "sConfigFilename": "str"},
        returns="obj:builtins.dict",
        modifies=["heap:dict.__keys__", "heap:dict.__vals__"],
        ensures=["result is dConfig"],
        trusted="stub: merging of file_list entries (glob expansion, per-file dictionaries) is not modelled; process_config_file is verified for configuration files without a file_list section",
    ),
}

# NOT LOADED (work in progress): 68 of 72 obligations discharge; the four open ones are the dictionary-shape invariant on the
# KeyError path of the inner loop (quantified key-set axioms time out).  Nothing is claimed from it.
PENDING = {
    "vsg.config.process_config_file": dict(
        types={"dConfiguration": "obj:builtins.dict", "tempConfiguration": "obj:builtins.dict", "sConfigFilename": "str"},
        requires=[
            "dConfiguration is not tempConfiguration",
            "'file_list' not in tempConfiguration",
            # the shape a YAML/JSON configuration has: the rule section is a dictionary, and the two files do not share it
            "implies('rule' in tempConfiguration, isinstance(tempConfiguration['rule'], dict) and tempConfiguration['rule'] is not dConfiguration and tempConfiguration['rule'] is not tempConfiguration)",
            "implies('rule' in dConfiguration, isinstance(dConfiguration['rule'], dict) and dConfiguration['rule'] is not tempConfiguration and dConfiguration['rule'] is not dConfiguration and implies('rule' in tempConfiguration, dConfiguration['rule'] is not tempConfiguration['rule']))",
        ],
        returns="obj:builtins.dict",
        modifies=["heap:dict.__keys__", "heap:dict.__vals__"],
        ensures=[
            "result is dConfiguration",
            # every section of the later file other than 'rule' replaces the earlier one
            "forall(lambda j: implies(keys(tempConfiguration)[j] != 'rule', keys(tempConfiguration)[j] in result and result[keys(tempConfiguration)[j]] is tempConfiguration[keys(tempConfiguration)[j]]), 0, len(keys(tempConfiguration)))",
            # the later file itself is not changed
            "forall(lambda j: tempConfiguration[keys(tempConfiguration)[j]] is old(tempConfiguration[keys(tempConfiguration)[j]]), 0, len(keys(tempConfiguration)))",
        ],
        loops={
            1: dict(
                invariant=[
                    "dReturn is dConfiguration",
                    "forall(lambda j: implies(keys(tempConfiguration)[j] != 'rule', keys(tempConfiguration)[j] in dReturn and dReturn[keys(tempConfiguration)[j]] is tempConfiguration[keys(tempConfiguration)[j]]), 0, _i)",
                    "forall(lambda j: tempConfiguration[keys(tempConfiguration)[j]] is old(tempConfiguration[keys(tempConfiguration)[j]]), 0, len(keys(tempConfiguration)))",
                    "keys(tempConfiguration) == old(keys(tempConfiguration))",
                    "implies('rule' in dReturn, isinstance(dReturn['rule'], dict) and dReturn['rule'] is not tempConfiguration and implies('rule' in tempConfiguration, dReturn['rule'] is not tempConfiguration['rule']))",
                ]
            ),
            2: dict(invariant=["dReturn is dConfiguration", "implies('rule' in dReturn, isinstance(dReturn['rule'], dict) and dReturn['rule'] is not tempConfiguration and implies('rule' in tempConfiguration, dReturn['rule'] is not tempConfiguration['rule']))"]),
        },
    ),
}


def install(engine):
    from pyvc.values import ListV, Type

    def keys(run, st, args, node):
        d = run.as_dict(st, args[0], node)
        return ListV(run.new_cell(st, run.dict_keyseq(st, d)), Type("str"))

    engine.spec_funcs["keys"] = keys
