# -*- coding: utf-8 -*-
"""Contracts for the extraction helpers behind the three most used rule bases (C18, second clause): every region of interest is
a contiguous slice of the token list whose recorded start position is where those very tokens sit.

  get_tokens_matching                       -> token_case (243 rules) and 12 direct users
  get_tokens_at_beginning_of_line_matching  -> token_indent (102 rules)
  get_sequence_of_tokens_matching           -> whitespace_between_tokens (171 rules)

ASSUMED (C18's first clause, observed by the bounded layer before every analysis): the index agrees with the list it is asked
about.  Ghost `gall` is the token list the index was built from; the helpers require `lAllTokens == gall`, and the queries of
vsg.token_map.New are abstract stubs that return positions of `gall`."""
ITEM = "obj:vsg.parser.item"
TOI = "obj:vsg.vhdlFile.extract.tokens.New"
MAP = "obj:vsg.token_map.New"

GHOSTS = {"gall": "list[%s]" % ITEM}


def stub(**kw):
    d = dict(trusted="assumed: the token index agrees with the token list it was built from (C18 clause 1, observed at every analysis by the bounded layer)")
    d.update(kw)
    return d


IN_RANGE = "forall(lambda k: 0 <= {L}[k] and {L}[k] < len({A}), 0, len({L}))"
# the region is the slice at its recorded start, and its recorded line is the line of its first token (C07: what
# extract_tokens and the report rely on)
SLICE = "0 <= {R}.iStartIndex and {R}.lTokens == lAllTokens[{R}.iStartIndex:{R}.iStartIndex + len({R}.lTokens)] and {R}.iLine == 1 + ncr(lAllTokens[:{R}.iStartIndex])"

# regions come in the order of the list: the position behind each region's last token never decreases (vhdlFile.update splices
# from the last region to the first and ASSUMES exactly that, P_update in contracts/vhdlfile.py)
ASC = "forall(lambda k: {L}[k] <= {L}[k + 1], 0, len({L}) - 1)"
ORDER = "forall(lambda k: {R}[k].iStartIndex + len({R}[k].lTokens) <= {R}[k + 1].iStartIndex + len({R}[k + 1].lTokens), 0, len({R}) - 1)"
LAST_AT = "len(lReturn) <= _i and implies(len(lReturn) > 0, lReturn[len(lReturn) - 1].iStartIndex + len(lReturn[len(lReturn) - 1].lTokens) <= lIndexes[_i - 1] + 1)"

CONTRACTS = {
    "vsg.token_map.New.get_token_indexes": stub(
        types={"oToken": "obj", "bCopy": "bool"},
        returns="list[int]",
        # positions of the list; none at all only if no token of the list is an instance of the class asked for
        # ... and listed in ascending order: the index is built in one pass over the list, and its own line-number queries (bisect)
        # rely on the same; part of the ASSUMED agreement of index and list
        ensures=[IN_RANGE.format(L="result", A="gall"), "implies(len(result) == 0, forall(lambda j: not isinstance(gall[j], oToken), 0, len(gall)))", ASC.format(L="result")],
    ),
    # line of a position = 1 + number of line breaks in front of it
    "vsg.token_map.New.get_line_number_of_index": stub(types={"iIndex": "int"}, returns="int", ensures=["result >= 1", "implies(0 <= iIndex and iIndex <= len(gall), result == 1 + ncr(gall[:iIndex]))"]),
    "vsg.token_map.New.is_token_at_index": stub(types={"oToken": "obj", "iIndex": "int"}, returns="bool", ensures=["implies(result, 0 <= iIndex and iIndex < len(gall) and isinstance(gall[iIndex], oToken))"]),
    "vsg.vhdlFile.extract.utils.get_indexes_of_token_list": dict(
        types={"lTokens": "list[obj]", "oTokenMap": MAP},
        returns="list[int]",
        locals={"lReturn": "list[int]"},
        ensures=[IN_RANGE.format(L="result", A="gall"), ASC.format(L="result")],
        loops={1: dict(invariant=[IN_RANGE.format(L="lReturn", A="gall")])},
    ),
    "vsg.vhdlFile.extract.get_tokens_matching.get_tokens_matching": dict(
        types={"lTokens": "list[obj]", "lAllTokens": "list[%s]" % ITEM, "oTokenMap": MAP},
        requires=["lAllTokens == gall"],
        returns="list[%s]" % TOI,
        locals={"lReturn": "list[%s]" % TOI, "lIndexes": "list[int]"},
        ensures=[
            # one region per position found, each the one-token slice at its recorded start
            "forall(lambda k: len(result[k].lTokens) == 1 and %s, 0, len(result))" % SLICE.format(R="result[k]"),
            ORDER.format(R="result"),
        ],
        loops={
            1: dict(invariant=[IN_RANGE.format(L="lIndexes", A="lAllTokens")]),
            2: dict(invariant=["forall(lambda k: len(lReturn[k].lTokens) == 1 and %s, 0, len(lReturn))" % SLICE.format(R="lReturn[k]"), ORDER.format(R="lReturn"), LAST_AT]),
        },
    ),
    "vsg.vhdlFile.extract.get_tokens_at_beginning_of_line_matching.get_tokens_at_beginning_of_line_matching": dict(
        types={"lTokens": "list[obj]", "lAllTokens": "list[%s]" % ITEM, "oTokenMap": MAP},
        requires=["lAllTokens == gall"],
        returns="list[%s]" % TOI,
        locals={"lReturn": "list[%s]" % TOI},
        ensures=[
            # [token] or [white space, token]: the slice at the recorded start
            "forall(lambda k: (len(result[k].lTokens) == 1 or len(result[k].lTokens) == 2) and %s, 0, len(result))" % SLICE.format(R="result[k]"),
            ORDER.format(R="result"),
        ],
        loops={1: dict(invariant=["forall(lambda k: (len(lReturn[k].lTokens) == 1 or len(lReturn[k].lTokens) == 2) and %s, 0, len(lReturn))" % SLICE.format(R="lReturn[k]"), ORDER.format(R="lReturn"), LAST_AT])},
    ),
}

CONTRACTS.update(
    {
        "vsg.vhdlFile.extract.get_sequence_of_tokens_matching.get_token_indexes": dict(
            types={"lTokens": "list[obj]", "oTokenMap": MAP},
            requires=["len(lTokens) >= 1"],
            returns="list[int]",
            # positions of the first class of the sequence; or, when there is none (no token is an instance of it), positions of
            # the last class shifted left, which may be negative
            ensures=[
                "forall(lambda k: result[k] < len(gall), 0, len(result))",
                "forall(lambda k: 0 <= result[k], 0, len(result)) or forall(lambda j: not isinstance(gall[j], lTokens[0]), 0, len(gall))",
                ASC.format(L="result"),
            ],
            loops={1: dict(invariant=["forall(lambda k: lIndexes[k] < len(gall), 0, len(lIndexes))", "forall(lambda k: 0 <= lTemp[k] and lTemp[k] < len(gall), 0, len(lTemp))", "iAdjust >= 0", "forall(lambda j: not isinstance(gall[j], lTokens[0]), 0, len(gall))", ASC.format(L="lTemp"), ASC.format(L="lIndexes"), "len(lIndexes) == _i and implies(_i > 0, lIndexes[_i - 1] == lTemp[_i - 1] - iAdjust)"])},
            locals={"lIndexes": "list[int]", "lTemp": "list[int]"},
        ),
    }
)

CONTRACTS.update(
    {
        "vsg.vhdlFile.extract.get_sequence_of_tokens_matching.get_sequence_of_tokens_matching": dict(
            types={"lTokens": "list[obj]", "lAllTokens": "list[%s]" % ITEM, "oTokenMap": MAP, "bIgnoreIfLineStart": "bool"},
            requires=["lAllTokens == gall", "len(lTokens) >= 1"],
            returns="list[%s]" % TOI,
            raises=["IndexError"],
            locals={"lReturn": "list[%s]" % TOI, "lIndexes": "list[int]"},
            ensures=[
                # every region has as many tokens as the sequence has classes and is the slice at its recorded start
                "forall(lambda k: len(result[k].lTokens) == len(lTokens) and %s, 0, len(result))" % SLICE.format(R="result[k]"),
                ORDER.format(R="result"),
            ],
            loops={
                1: dict(invariant=["forall(lambda k: len(lReturn[k].lTokens) == len(lTokens) and %s, 0, len(lReturn))" % SLICE.format(R="lReturn[k]"), ORDER.format(R="lReturn"), "len(lReturn) <= _i and implies(len(lReturn) > 0, lReturn[len(lReturn) - 1].iStartIndex + len(lReturn[len(lReturn) - 1].lTokens) <= lIndexes[_i - 1] + len(lTokens))"]),
                # a position whose first token matched is a real (non-negative) position, and no look-up ran past the end
                2: dict(invariant=["implies(_i > 0, 0 <= iIndex and iIndex + _i <= len(lAllTokens))"]),
            },
        ),
    }
)

# ---------------------------------------------------------------------------------------------- get_tokens_bounded_by (41 direct users)
RNG_START = "forall(lambda k: 0 <= lNewStart[k] and lNewStart[k] <= len(lAllObjects), 0, len(lNewStart))"
CONTRACTS.update(
    {
        "vsg.token_map.New.get_token_pair_indexes": stub(
            types={"oStart": "obj", "oEnd": "obj"},
            returns="tuple[list[int],list[int]]",
            ensures=["len(result[0]) == len(result[1])", IN_RANGE.format(L="result[0]", A="gall"), IN_RANGE.format(L="result[1]", A="gall")],
        ),
        "vsg.token_map.New.get_index_of_carriage_return_before_index": stub(types={"iIndex": "int"}, returns="opt[int]", ensures=["implies(result is not None, -1 <= result and result < len(gall))"]),
        "vsg.token_map.New.get_index_of_carriage_return_after_index": stub(types={"iIndex": "int"}, returns="int", raises=["IndexError"], ensures=["0 <= result and result < len(gall)"]),
        "vsg.vhdlFile.extract.get_tokens_bounded_by.get_tokens_bounded_by": dict(
            types={"oStart": "obj", "oEnd": "obj", "lAllObjects": "list[%s]" % ITEM, "oTokenMap": MAP, "include_trailing_whitespace": "bool", "bExcludeLastToken": "bool", "bIncludeTillEndOfLine": "bool", "bIncludeTillBeginningOfLine": "bool"},
            requires=["lAllObjects == gall"],
            returns="list[%s]" % TOI,
            raises=["IndexError"],
            # the position of the closing token inside the region is recorded on the region objects this call creates
            modifies=["heap:New.sTokenValue"],
            fields={"vsg.vhdlFile.extract.tokens.New.sTokenValue": "opt[int]"},
            locals={"lReturn": "list[%s]" % TOI, "lNewStart": "list[int]", "lNewEnd": "list[int]"},
            ensures=["forall(lambda k: %s, 0, len(result))" % SLICE.replace("lAllTokens", "lAllObjects").format(R="result[k]")],
            # only the start positions matter for "the region is the slice at its recorded start": they are positions of the list
            # (or the position behind a line break in front of one)
            loops={
                1: dict(invariant=[RNG_START]),
                5: dict(invariant=[RNG_START, "forall(lambda k: %s, 0, len(lReturn))" % SLICE.replace("lAllTokens", "lAllObjects").format(R="lReturn[k]")]),
            },
        ),
    }
)

# ---------------------------------------------------------------------------------------------- white space before a token (32 rules)
# get_token_and_n_tokens_before_it records the line of the MATCHED token (the last of the region), not of the region's first token;
# the rule base turns that into "line of the first token" by refusing regions with a line break among the first two tokens and
# by re-counting the line breaks it skips (extract_tokens).  C07: what is reported is the line of the region that is rewritten.
BEFORE = "len({R}.lTokens) == iTokens + 1 and 0 <= {R}.iStartIndex and {R}.lTokens == lAllTokens[{R}.iStartIndex:{R}.iStartIndex + iTokens + 1] and {R}.iLine == 1 + ncr(lAllTokens[:{R}.iStartIndex + iTokens]) and {R}.iLine == 1 + ncr(lAllTokens[:{R}.iStartIndex]) + ncr({R}.lTokens[:iTokens])"
VF = "obj:vsg.vhdlFile.vhdlFile.vhdlFile"
SLICE_F = SLICE.replace("lAllTokens", "oFile.lAllObjects")
CONTRACTS.update(
    {
        "vsg.vhdlFile.extract.get_token_and_n_tokens_before_it.get_token_and_n_tokens_before_it": dict(
            types={"lTokens": "list[obj]", "iTokens": "int", "lAllTokens": "list[%s]" % ITEM, "oTokenMap": MAP},
            requires=["lAllTokens == gall", "iTokens >= 0"],
            returns="list[%s]" % TOI,
            locals={"lReturn": "list[%s]" % TOI, "lIndexes": "list[int]"},
            ensures=["forall(lambda k: %s, 0, len(result))" % BEFORE.format(R="result[k]"), ORDER.format(R="result")],
            loops={1: dict(invariant=["forall(lambda k: %s, 0, len(lReturn))" % BEFORE.format(R="lReturn[k]"), ORDER.format(R="lReturn"), LAST_AT])},
        ),
        "vsg.rules.whitespace_before_token.extract_toi": dict(
            types={"oToi": TOI},
            requires=["len(oToi.lTokens) == 3"],
            returns=TOI,
            ensures=[
                "implies(isinstance(oToi.lTokens[1], parser.whitespace), result is oToi)",
                "implies(not isinstance(oToi.lTokens[1], parser.whitespace), result.lTokens == oToi.lTokens[1:3] and result.iStartIndex == oToi.iStartIndex + 1 and result.iLine == oToi.iLine + ncr(oToi.lTokens[:1]))",
            ],
        ),
        "vsg.rules.whitespace_before_token.Rule._get_tokens_of_interest": dict(
            types={"oFile": VF},
            fields={"vsg.rules.whitespace_before_token.Rule.lTokens": "list[obj]", "vsg.vhdlFile.vhdlFile.vhdlFile.oTokenMap": MAP},
            requires=["oFile.lAllObjects == gall"],
            returns="list[%s]" % TOI,
            locals={"lReturn": "list[%s]" % TOI, "lToi": "list[%s]" % TOI},
            ensures=[
                # [x, white space, token] or [x, token], the slice at the recorded start, reported at the line of its first token
                "forall(lambda k: (len(result[k].lTokens) == 3 or len(result[k].lTokens) == 2) and %s, 0, len(result))" % SLICE_F.format(R="result[k]"),
            ],
            loops={1: dict(invariant=["forall(lambda k: (len(lReturn[k].lTokens) == 3 or len(lReturn[k].lTokens) == 2) and %s, 0, len(lReturn))" % SLICE_F.format(R="lReturn[k]")])},
        ),
    }
)

# ---------------------------------------------------------------------------------------------- conditions of if / elsif (if_002)
# The region handed to the parenthesis rule is the slice at its recorded start; in the stripping mode (the default: parentheses are
# inserted around it) it neither starts nor ends with white space, a line break or a comment, so that what is put in front of it
# and behind it lands next to code (C01: a ')' behind a trailing comment would be comment text in the written file).
WSC_ = "(parser.whitespace, parser.carriage_return, parser.comment, parser.blank_line, parser.preprocessor)"
CONTRACTS.update(
    {
        "vsg.vhdlFile.utils.remove_leading_whitespace_and_comments": dict(
            types={"iToken": "int", "lTokens": "list[%s]" % ITEM},
            returns="tuple[int,list[%s]]" % ITEM,
            ensures=[
                # what is cut off in front is white space / comments only, the start moves by as much, and what remains starts with code
                "iToken <= result[0] and result[0] <= iToken + len(lTokens)",
                "implies(exists(lambda k: not isinstance(lTokens[k], %s), 0, len(lTokens)), result[0] > iToken and result[1] == lTokens[result[0] - iToken - 1:] and len(result[1]) >= 1 and not isinstance(result[1][0], %s) and forall(lambda k: isinstance(lTokens[k], %s), 0, result[0] - iToken - 1))" % (WSC_, WSC_, WSC_),
                "implies(forall(lambda k: isinstance(lTokens[k], %s), 0, len(lTokens)), result[0] == iToken and result[1] == lTokens)" % WSC_,
            ],
            loops={1: dict(invariant=["forall(lambda k: isinstance(lTokens[k], %s), 0, _i)" % WSC_])},
        ),
    }
)

ALLW = "forall(lambda k: isinstance(old(lTokens)[k], %s), 0, len(old(lTokens)))" % WSC_
CONTRACTS.update(
    {
        # (reverses its argument in place, cuts the white space / comments at the new front, reverses the rest again)
        "vsg.vhdlFile.utils.remove_trailing_whitespace_and_comments": dict(
            types={"lTokens": "list[%s]" % ITEM},
            returns="list[%s]" % ITEM,
            modifies=["lTokens"],
            locals={"lMyTokens": "list[%s]" % ITEM},
            ensures=[
                "len(result) <= len(old(lTokens))",
                # a prefix of the argument ...
                "implies(not %s, result == old(lTokens)[:len(result)])" % ALLW,
                # ... behind which only white space and comments were cut off ...
                "forall(lambda k: isinstance(old(lTokens)[k], %s), len(result), len(old(lTokens)))" % WSC_,
                # ... and which ends with code
                "implies(not %s, len(result) >= 1 and not isinstance(result[len(result) - 1], %s))" % (ALLW, WSC_),
            ],
            loops={1: dict(invariant=["forall(lambda k: isinstance(lTokens[k], %s), 0, _i)" % WSC_, "len(lTokens) == len(old(lTokens))", "forall(lambda k: lTokens[k] is old(lTokens)[len(lTokens) - 1 - k], 0, len(lTokens))", "forall(lambda k: old(lTokens)[k] is lTokens[len(lTokens) - 1 - k], 0, len(lTokens))"])},
        ),
    }
)

# NOT LOADED (work in progress): 60 of 64 obligations of get_if_statement_conditions discharge; the four open ones need the
# existential "there is code between the keyword and its then" carried through three slices.  Nothing is claimed from it; the two
# helpers above are verified and the bounded layer (design if_condition_layouts, option value parenthesis: remove) decides.
COND = "{R}.lTokens == lAllTokens[{R}.iStartIndex:{R}.iStartIndex + len({R}.lTokens)] and 0 <= {R}.iStartIndex and {R}.iLine == 1 + ncr(lAllTokens[:{R}.iStartIndex])"
STRIPPED = "implies(fRemoveWhitespace, len({R}.lTokens) >= 1 and not isinstance({R}.lTokens[0], %s) and not isinstance({R}.lTokens[len({R}.lTokens) - 1], %s))" % (WSC_, WSC_)
PENDING = {}
PENDING.update(
    {
        # (None when there is no such token: the classifier accepts an if / elsif only with a condition and its then, so for the
        # positions the extraction asks about there is one, and there is code in between -- part of the assumption)
        "vsg.token_map.New.get_index_of_token_after_index": stub(types={"oToken": "obj", "iIndex": "int"}, returns="int", ensures=["iIndex < result and result < len(gall)", "exists(lambda k: not isinstance(gall[k], %s), iIndex + 1, result)" % WSC_]),
        "vsg.vhdlFile.extract.get_if_statement_conditions.get_if_statement_conditions": dict(
            types={"lAllTokens": "list[%s]" % ITEM, "oTokenMap": MAP, "fRemoveWhitespace": "bool"},
            requires=["lAllTokens == gall"],
            returns="list[%s]" % TOI,
            locals={"lReturn": "list[%s]" % TOI, "lStart": "list[int]", "lEnd": "list[int]", "lTemp": "list[%s]" % ITEM},
            ensures=["forall(lambda k: %s and %s, 0, len(result))" % (COND.format(R="result[k]"), STRIPPED.format(R="result[k]"))],
            loops={
                1: dict(invariant=["len(lEnd) == _i", "forall(lambda k: lStart[k] < lEnd[k] and lEnd[k] < len(lAllTokens) and exists(lambda j: not isinstance(lAllTokens[j], %s), lStart[k] + 1, lEnd[k]), 0, _i)" % WSC_, IN_RANGE.format(L="lStart", A="lAllTokens")]),
                2: dict(invariant=["forall(lambda k: %s and %s, 0, len(lReturn))" % (COND.format(R="lReturn[k]"), STRIPPED.format(R="lReturn[k]"))]),
            },
        ),
    }
)

# ---------------------------------------------------------------------------------------------- indent of generics (generic_004)
# positions outside the 'unless' regions, in the order they came in; the regions at the start of a line between the two bounding
# tokens, in the order of the list (C07 / C18: update() splices from the last region to the first)
SUBSEQ = "len(lReturn) <= _i and implies(len(lReturn) > 0, lReturn[len(lReturn) - 1] <= lIndexes[_i - 1])"
CONTRACTS.update(
    {
        "vsg.vhdlFile.extract.utils.get_indexes_of_token_pairs": dict(
            types={"lPairs": "list[list[obj]]", "oTokenMap": MAP},
            returns="list[list[int]]",
            raises=["IndexError"],
            locals={"lReturn": "list[list[int]]"},
            ensures=["forall(lambda k: len(result[k]) == 2, 0, len(result))"],
            loops={1: dict(invariant=["forall(lambda k: len(lReturn[k]) == 2, 0, len(lReturn))"]), 2: dict(invariant=["forall(lambda k: len(lReturn[k]) == 2, 0, len(lReturn))"])},
        ),
        "vsg.vhdlFile.extract.utils.filter_indexes_in_unless_regions": dict(
            types={"lIndexes": "list[int]", "lUnless": "list[list[obj]]", "oTokenMap": MAP},
            requires=[ASC.format(L="lIndexes"), IN_RANGE.format(L="lIndexes", A="gall")],
            returns="list[int]",
            raises=["IndexError"],
            locals={"lReturn": "list[int]"},
            ensures=[ASC.format(L="result"), IN_RANGE.format(L="result", A="gall")],
            loops={1: dict(invariant=[ASC.format(L="lReturn"), IN_RANGE.format(L="lReturn", A="gall"), SUBSEQ])},
        ),
        "vsg.vhdlFile.extract.utils.is_index_between_indexes": dict(
            types={"iIndex": "int", "lStart": "list[int]", "lEnd": "list[int]", "bInclusive": "bool"},
            returns="bool",
        ),
        "vsg.vhdlFile.extract.get_tokens_at_beginning_of_line_matching_between_tokens_unless_between_tokens.get_tokens_at_beginning_of_line_matching_between_tokens_unless_between_tokens": dict(
            types={"lTokens": "list[obj]", "oStart": "obj", "oEnd": "obj", "lUnless": "list[list[obj]]", "bInclusive": "bool", "lAllTokens": "list[%s]" % ITEM, "oTokenMap": MAP},
            requires=["lAllTokens == gall"],
            returns="list[%s]" % TOI,
            raises=["IndexError"],
            locals={"lReturn": "list[%s]" % TOI, "lIndexes": "list[int]"},
            ensures=[
                "forall(lambda k: (len(result[k].lTokens) == 1 or len(result[k].lTokens) == 2) and %s, 0, len(result))" % SLICE.format(R="result[k]"),
                ORDER.format(R="result"),
            ],
            loops={1: dict(invariant=["forall(lambda k: (len(lReturn[k].lTokens) == 1 or len(lReturn[k].lTokens) == 2) and %s, 0, len(lReturn))" % SLICE.format(R="lReturn[k]"), ORDER.format(R="lReturn"), LAST_AT])},
        ),
    }
)
