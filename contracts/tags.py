# -*- coding: utf-8 -*-
"""Contracts for the code-tag mechanism (C11): parser.item.has_code_tag / set_code_tags,
violation.New.has_code_tag, Rule.add_violation, code_tags.New.get_tags.

Top-level clause taken from the property statement: a violation of rule r is suppressed iff some token of its
region carries 'all' or r; a token 'carries' what set_code_tags stamped on it."""

ITEM = "obj:vsg.parser.item"
VIOL = "obj:vsg.violation.New"

FIELDS = {
    "vsg.parser.item.code_tags": "list[str]",
    "vsg.parser.item.value": "str",
    "vsg.vhdlFile.extract.tokens.New.lTokens": "list[%s]" % ITEM,
    "vsg.vhdlFile.code_tags.New.code_tags": "list[str]",
    "vsg.vhdlFile.code_tags.New.next_line_code_tags": "list[str]",
    "vsg.vhdlFile.code_tags.New.bIgnoreNextCarriageReturn": "bool",
}

TAGGED = "('all' in {t}.code_tags or {id} in {t}.code_tags)"

CONTRACTS = {
    "vsg.parser.item.has_code_tag": dict(
        types={"sCodeTag": "str"},
        returns="bool",
        ensures=["result == " + TAGGED.format(t="self", id="sCodeTag")],
    ),
    "vsg.parser.item.set_code_tags": dict(
        types={"lCodeTags": "list[str]"},
        modifies=["self.code_tags"],
        ensures=["self.code_tags == lCodeTags"],
    ),
    "vsg.violation.New.has_code_tag": dict(
        types={"sCodeTag": "str"},
        returns="bool",
        ensures=["result == exists(lambda k: " + TAGGED.format(t="self.oTokens.lTokens[k]", id="sCodeTag") + ", 0, len(self.oTokens.lTokens))"],
        loops={1: dict(invariant=["forall(lambda k: not " + TAGGED.format(t="self.oTokens.lTokens[k]", id="sCodeTag") + ", 0, _i)"])},
    ),
    "vsg.rule.Rule.add_violation": dict(
        types={"violation": VIOL},
        modifies=["self.violations", "violation.sSolution"],
        ensures=[
            # suppressed <=> some token of the region carries 'all' or this rule's id
            "implies(exists(lambda k: " + TAGGED.format(t="violation.oTokens.lTokens[k]", id="self.unique_id") + ", 0, len(violation.oTokens.lTokens)), self.violations == old(self.violations))",
            "implies(not exists(lambda k: " + TAGGED.format(t="violation.oTokens.lTokens[k]", id="self.unique_id") + ", 0, len(violation.oTokens.lTokens)), self.violations == old(self.violations) + [violation])",
        ],
    ),
    "vsg.vhdlFile.code_tags.New.get_tags": dict(
        returns="list[str]",
        ensures=["result == self.code_tags + self.next_line_code_tags"],
    ),
}
