# -*- coding: utf-8 -*-
"""The classifier (vsg/vhdlFile/classify/*.py, 435 functions) and the token helpers it is written with (vsg/vhdlFile/utils.py):
C19, "no run fails to terminate".

One contract shape for every function that walks the token list  f(..., iToken, lObjects)  and returns a position:

    requires 0 <= iToken <= len(lObjects)
    ensures  iToken <= result <= len(lObjects)   and   len(lObjects) == len(old(lObjects))
    raises   ClassifyError, IndexError           (the located syntax error, or the end of the list)

and, for every while loop over the position variable, the invariant `iToken <= iCurrent <= len(lObjects)` with the measure
`len(lObjects) - iCurrent`.  The contracts are GENERATED from the source on every run (this file reads the tree the engine was
pointed at); each function is verified against the generated contracts of its callees (assume / guarantee), so what is proved is:
IF every call returns, every function returns a position that is not in front of its argument and not beyond the list, and its
own loops terminate.  Recursion between the classifiers (expressions nest) is not covered by a measure: termination of the
recursion itself is NOT proved.  A function the engine cannot handle, or whose generated contract does not verify, is listed by
the check as not under contract (nothing is claimed for it); its callers then ASSUME the shape for it (listed as trusted)."""
import ast
import glob
import os

ITEM = "obj:vsg.parser.item"
TCLS = "cls:vsg.parser.item"
MONO = ["iToken <= result", "result <= len(lObjects)", "len(lObjects) == len(old(lObjects))"]
PRE = ["0 <= iToken", "iToken <= len(lObjects)"]
RAISES = ["ClassifyError", "IndexError"]

CONTRACTS = {
    # ------------------------------------------------------------------------------------------------ helpers of vhdlFile/utils.py
    "vsg.vhdlFile.utils.print_error_message": dict(
        types={"sToken": "str", "token": TCLS, "iToken": "int", "lObjects": "list[%s]" % ITEM},
        raises=["ClassifyError"],
        ensures=["False"],
        trusted="assumed: builds the located message and always raises ClassifyError (its last statement is the raise)",
    ),
    "vsg.vhdlFile.utils.assign_next_token_required": dict(
        types={"sToken": "str", "token": TCLS, "iToken": "int", "lObjects": "list[%s]" % ITEM}, requires=PRE, returns="int", modifies=["lObjects"], raises=RAISES,
        ensures=["iToken < result", "result <= len(lObjects)", "len(lObjects) == len(old(lObjects))"],
    ),
    "vsg.vhdlFile.utils.assign_next_token": dict(
        types={"token": TCLS, "iToken": "int", "lObjects": "list[%s]" % ITEM}, requires=PRE, returns="int", modifies=["lObjects"], raises=RAISES,
        ensures=["iToken < result", "result <= len(lObjects)", "len(lObjects) == len(old(lObjects))"],
    ),
    "vsg.vhdlFile.utils.assign_next_token_if": dict(types={"sToken": "str", "token": TCLS, "iToken": "int", "lObjects": "list[%s]" % ITEM}, requires=PRE, returns="int", modifies=["lObjects"], raises=RAISES, ensures=MONO),
    "vsg.vhdlFile.utils.assign_next_token_if_not": dict(types={"sToken": "str", "token": TCLS, "iToken": "int", "lObjects": "list[%s]" % ITEM}, requires=PRE, returns="int", modifies=["lObjects"], raises=RAISES, ensures=MONO),
    "vsg.vhdlFile.utils.assign_next_token_if_not_one_of": dict(types={"lTokens": "list[str]", "token": TCLS, "iToken": "int", "lObjects": "list[%s]" % ITEM}, requires=PRE, returns="int", modifies=["lObjects"], raises=RAISES, ensures=MONO),
    "vsg.vhdlFile.utils.assign_token": dict(
        types={"lObjects": "list[%s]" % ITEM, "iToken": "int", "token": TCLS}, requires=PRE, returns="int", modifies=["lObjects"], raises=RAISES,
        ensures=["result == iToken + 1", "result <= len(lObjects)", "len(lObjects) == len(old(lObjects))"],
    ),
    "vsg.vhdlFile.utils.classify_next_token": dict(
        types={"token": TCLS, "iToken": "int", "lObjects": "list[%s]" % ITEM}, requires=PRE, returns="int", modifies=["lObjects"], raises=RAISES,
        ensures=["iToken < result", "result <= len(lObjects)", "len(lObjects) == len(old(lObjects))"],
    ),
    "vsg.vhdlFile.utils.assign_tokens_until": dict(
        types={"sToken": "str", "token": TCLS, "iToken": "int", "lObjects": "list[%s]" % ITEM}, requires=PRE, returns="int", modifies=["lObjects"], raises=RAISES, ensures=MONO,
        loops={1: dict(invariant=["iToken <= iCurrent", "iCurrent <= len(lObjects)", "len(lObjects) == len(old(lObjects))"], decreases="len(lObjects) - iCurrent")},
    ),
    "vsg.vhdlFile.utils.tokenize_postponed": dict(
        types={"iObject": "int", "lObjects": "list[%s]" % ITEM, "token": TCLS}, requires=["0 <= iObject", "iObject <= len(lObjects)"], returns="int", modifies=["lObjects"], raises=RAISES,
        ensures=["iObject <= result", "result <= len(lObjects)", "len(lObjects) == len(old(lObjects))"],
    ),
    "vsg.vhdlFile.utils.tokenize_label": dict(
        types={"iToken": "int", "lObjects": "list[%s]" % ITEM, "label_token": TCLS, "colon_token": TCLS}, requires=PRE, returns="int", modifies=["lObjects"], raises=RAISES, ensures=MONO,
        loops={1: dict(invariant=["iToken <= iCurrent", "iCurrent <= len(lObjects)", "len(lObjects) == len(old(lObjects))", "0 <= iItemCount"], decreases="len(lObjects) - iCurrent")},
    ),
    "vsg.vhdlFile.utils.find_in_next_n_tokens": dict(
        types={"sValue": "str", "iMax": "int", "iToken": "int", "lObjects": "list[%s]" % ITEM}, requires=["0 <= iToken"], returns="bool", modifies=[], raises=["IndexError"],
        loops={1: dict(invariant=["iToken <= iCurrent"], decreases="iMax - iTokenCount")},
    ),
    "vsg.vhdlFile.utils.get_range": dict(
        types={"lObjects": "list[%s]" % ITEM, "iStart": "int", "sEnd": "str"}, requires=["0 <= iStart"], returns="tuple[int,int]", modifies=[], raises=["IndexError"],
        ensures=["result[0] == iStart", "iStart <= result[1]", "result[1] < len(lObjects)"],
        loops={1: dict(invariant=["iStart <= iIndex"], decreases="len(lObjects) - iIndex")},
    ),
    "vsg.vhdlFile.utils.find_in_range": dict(
        types={"sValue": "str", "iToken": "int", "sEnd": "str", "lObjects": "list[%s]" % ITEM}, requires=["0 <= iToken"], returns="bool", modifies=[], raises=["IndexError"],
        loops={1: dict(invariant=["True"])},
    ),
    "vsg.vhdlFile.utils.are_next_consecutive_tokens": dict(
        external=True, params=["lTokens", "iToken", "lObjects"], types={"iToken": "int", "lObjects": "list[%s]" % ITEM}, returns="bool", modifies=[], raises=["IndexError"],
        trusted="assumed: a pure look-ahead (its list of expected values holds None entries, which the engine's lists cannot; its loop counts iTokenCount up to len(lTokens))",
    ),
    "vsg.vhdlFile.utils.detect_submodule": dict(
        types={"iToken": "int", "lObjects": "list[%s]" % ITEM, "module": "obj:classifier"}, requires=PRE, returns="int", modifies=["lObjects"], raises=RAISES, ensures=MONO,
        loops={1: dict(invariant=["iToken <= iReturn", "iReturn <= len(lObjects)", "len(lObjects) == len(old(lObjects))"], decreases="2 * (len(lObjects) - iReturn) + (1 if iLast != iReturn else 0)")},
    ),
}


# ------------------------------------------------------------------------------------------------ generated: vsg/vhdlFile/classify/*.py
PARAM_TYPES = {
    "iToken": "int", "iCurrent": "int", "iIndex": "int", "iObject": "int", "iParens": "int", "iTokent": "int",
    "lObjects": "list[%s]" % ITEM, "lUntils": "list[str]", "lTokens": "list[str]", "sToken": "str",
    "oTokenClass": TCLS, "oType": TCLS, "token": TCLS, "oToken": TCLS, "oTokenType": TCLS,
    "oOptions": "obj:vsg.vhdlFile.vhdlFile.options",
}


def _returns_kind(fn):
    """'int' (positions), 'bool' (only True / False / boolean expressions), None (something else)"""
    kinds = set()
    for n in ast.walk(fn):
        if isinstance(n, ast.Return):
            v = n.value
            if v is None:
                kinds.add("none")
            elif isinstance(v, ast.Constant) and isinstance(v.value, bool):
                kinds.add("bool")
            elif isinstance(v, (ast.Compare, ast.BoolOp)) or (isinstance(v, ast.UnaryOp) and isinstance(v.op, ast.Not)):
                kinds.add("bool")
            else:
                kinds.add("int")
    if not kinds:
        return "none"
    if kinds == {"bool"}:
        return "bool"
    if kinds == {"int"}:
        return "int"
    return None


def _position_param(ps):
    for n in ("iToken", "iCurrent", "iIndex", "iObject", "iTokent"):
        if n in ps:
            return n
    return None


def _loops(fn, pos):
    """contracts of the while loops: the position variable stays between the argument and the end of the list and the list keeps
    its length; the measure is the distance to the end of the list (for the fixed-point loops `while iLast != iCurrent` with one
    more unit for the iteration that detects that nothing moved)"""
    out = {}
    k = 0
    for n in ast.walk(fn):
        if isinstance(n, (ast.While, ast.For)):
            k += 1
    # ordinals follow source order (ast.walk is breadth first: collect by position instead)
    loops = sorted([n for n in ast.walk(fn) if isinstance(n, (ast.While, ast.For))], key=lambda n: (n.lineno, n.col_offset))
    for i, n in enumerate(loops, 1):
        if isinstance(n, ast.For):
            out[i] = dict(invariant=["len(lObjects) == len(old(lObjects))"])
            continue
        assigned = sorted({t.id for s in ast.walk(n) for t in (s.targets if isinstance(s, ast.Assign) else [s.target] if isinstance(s, ast.AugAssign) else []) if isinstance(t, ast.Name)})
        var = "iCurrent" if "iCurrent" in assigned else (pos if pos in assigned else (assigned[0] if assigned else None))
        if var is None:
            return None
        inv = ["%s <= %s" % (pos, var), "%s <= len(lObjects)" % var, "len(lObjects) == len(old(lObjects))"]
        test = ast.unparse(n.test)
        if test.replace(" ", "") in ("iLast!=%s" % var, "%s!=iLast" % var):
            out[i] = dict(invariant=inv, decreases="2 * (len(lObjects) - %s) + (1 if iLast != %s else 0)" % (var, var))
        else:
            out[i] = dict(invariant=inv, decreases="len(lObjects) - %s" % var)
    return out


def generate(root):
    out = {}
    skipped = {}
    for f in sorted(glob.glob(os.path.join(root, "vsg", "vhdlFile", "classify", "*.py"))):
        mod = "vsg.vhdlFile.classify." + os.path.basename(f)[:-3]
        if mod.endswith(".__init__") or mod.endswith(".comment") or mod.endswith(".whitespace") or mod.endswith(".blank") or mod.endswith(".preprocessor") or mod.endswith(".pragma"):
            continue  # line classifiers: another signature (contracts of their own in contracts/vhdlfile.py)
        try:
            tree = ast.parse(open(f, encoding="utf-8").read())
        except SyntaxError:
            continue
        for fn in tree.body:
            if not isinstance(fn, ast.FunctionDef):
                continue
            q = mod + "." + fn.name
            ps = [a.arg for a in fn.args.args]
            pos = _position_param(ps)
            if "lObjects" not in ps or pos is None or any(p not in PARAM_TYPES for p in ps):
                skipped[q] = "signature %r" % (ps,)
                continue
            kind = _returns_kind(fn)
            if kind not in ("int", "bool"):
                skipped[q] = "mixed return values"
                continue
            loops = _loops(fn, pos)
            if loops is None:
                skipped[q] = "loop without a position variable"
                continue
            ct = dict(types={p: PARAM_TYPES[p] for p in ps}, requires=["0 <= %s" % pos, "%s <= len(lObjects)" % pos], raises=RAISES, generated=True)
            if fn.args.defaults:
                ct["defaults_from_source"] = True
            if kind == "int":
                ct.update(returns="int", modifies=["lObjects"] + (["lUntils"] if "lUntils" in ps else []), ensures=["%s <= result" % pos, "result <= len(lObjects)", "len(lObjects) == len(old(lObjects))"])
            else:
                ct.update(returns="bool", modifies=[])
            if loops:
                ct["loops"] = loops
            out[q] = ct
    return out, skipped


_ROOT = os.environ.get("PYVC_REPO_ROOT") or os.environ.get("VSG_REPO", "/repo")
GENERATED, SKIPPED = generate(_ROOT)
for _q, _c in GENERATED.items():
    CONTRACTS.setdefault(_q, _c)

# Functions whose generated contract does not verify on the pinned tree (the engine rejects a construct, or an obligation fails:
# mostly loops whose progress is not visible in the position variable, e.g. a comma loop that re-reads iToken and terminates only
# because every pass classifies one more token).  The list is committed (tools_parser.py writes it from a run on the unchanged
# tree, never a check); for these functions the shape is ASSUMED at their call sites and nothing is claimed about their bodies.
import json as _json

_UNVERIFIED_PATH = os.path.join(os.path.dirname(os.path.abspath(__file__)), "parser_unverified.json")
UNVERIFIED = {}
if os.path.exists(_UNVERIFIED_PATH) and not os.environ.get("PYVC_PARSER_SWEEP"):
    UNVERIFIED = _json.load(open(_UNVERIFIED_PATH))
for _q, _why in UNVERIFIED.items():
    if _q in CONTRACTS and CONTRACTS[_q].get("generated"):
        CONTRACTS[_q] = dict(CONTRACTS[_q], trusted="generated shape ASSUMED, not verified on the pinned tree: " + _why)

# (after fix ed16019) the parenthesis matcher: every pass classifies one more raw token, or returns
CONTRACTS["vsg.vhdlFile.utils.assign_tokens_until_matching_closing_paren"] = dict(
    types={"token": TCLS, "iToken": "int", "lObjects": "list[%s]" % ITEM},
    requires=PRE,
    returns="opt[int]",
    modifies=["lObjects"],
    raises=RAISES,
    ensures=["implies(result is not None, iToken <= result and result < len(lObjects))", "len(lObjects) == len(old(lObjects))"],
    loops={1: dict(invariant=["iToken <= iCurrent", "iCurrent <= len(lObjects)", "len(lObjects) == len(old(lObjects))"], decreases="raw_items(lObjects)")},
)

for _n in ("token_is_open_parenthesis", "token_is_close_parenthesis", "token_is_comma", "token_is_semicolon", "token_is_assignment_operator"):
    CONTRACTS["vsg.vhdlFile.utils." + _n] = dict(
        types={"iObject": "int", "lObjects": "list[%s]" % ITEM}, requires=["0 <= iObject"], returns="bool", modifies=[], raises=["IndexError"], raises_when={"IndexError": "iObject >= len(lObjects)"}
    )
CONTRACTS["vsg.vhdlFile.utils.update_paren_counter"] = dict(
    types={"iToken": "int", "lTokens": "list[%s]" % ITEM, "iCounter": "int"}, requires=["0 <= iToken"], returns="int", modifies=[], raises=["IndexError"], raises_when={"IndexError": "iToken >= len(lTokens)"},
    ensures=["result == iCounter or result == iCounter + 1 or result == iCounter - 1"],
)

# ------------------------------------------------------------------------------------------------ more helpers (pure look-aheads and the like)
CONTRACTS.update({
    "vsg.vhdlFile.utils.skip_tokens_until_matching_closing_paren": dict(
        types={"iToken": "int", "lObjects": "list[%s]" % ITEM}, requires=["0 <= iToken"], returns="opt[int]", modifies=[], raises=["IndexError"],
        ensures=["implies(result is not None, iToken <= result and result < len(lObjects))"],
        loops={1: dict(invariant=["iToken <= iCurrent"], decreases="len(lObjects) - iCurrent")},
    ),
    "vsg.vhdlFile.utils.calculate_line_number": dict(
        types={"iToken": "int", "lObjects": "list[%s]" % ITEM}, returns="int", modifies=[], raises=["IndexError"], ensures=["result >= 1"],
        loops={1: dict(invariant=["iReturn >= 1"])},
    ),
    "vsg.vhdlFile.utils.are_next_consecutive_tokens_ignoring_whitespace": dict(
        external=True, params=["lTokens", "iToken", "lObjects"], types={"iToken": "int", "lObjects": "list[%s]" % ITEM}, returns="bool", modifies=[],
        trusted="assumed: a pure look-ahead (None entries in its list of expected values; IndexError is caught inside)",
    ),
    "vsg.vhdlFile.utils.find_next_token_with_value": dict(
        types={"iToken": "int", "sValue": "str", "lTokens": "list[%s]" % ITEM}, requires=["0 <= iToken"], returns="opt[int]", modifies=[],
        ensures=["implies(result is not None, iToken <= result and result < len(lTokens))"],
        loops={1: dict(invariant=["True"])},
    ),
    "vsg.vhdlFile.utils.all_assignments_inside_parenthesis": dict(
        types={"iToken": "int", "sStop": "str", "lTokens": "list[%s]" % ITEM}, requires=["0 <= iToken"], returns="bool", modifies=[], raises=["IndexError", "TypeError"],
        loops={1: dict(invariant=["True"])},
    ),
    "vsg.vhdlFile.utils.assign_special_tokens": dict(
        types={"lObjects": "list[%s]" % ITEM, "iCurrent": "int", "oType": TCLS}, requires=["0 <= iCurrent", "iCurrent <= len(lObjects)"], modifies=["lObjects"], raises=RAISES,
        ensures=["len(lObjects) == len(old(lObjects))"],
    ),
})
