# -*- coding: utf-8 -*-
"""Contracts for the write-back path (C16; also C04c): vsg/apply_rules.py write_vhdl_file, create_backup_file.

Ghost file system (specification only):
  fs_exists : path -> bool      fs_content : path -> str      fs_mode : path -> int
  oserr     : str   name of the first OS error raised by an external call in this activation ("" = none)
The contracts of the external calls (A3, POSIX semantics) are ASSUMED, not verified; each failing call raises a
PermissionError, a FileNotFoundError or another OSError non-deterministically, and the process may stop after any
statement (the `always` clause is asserted after every statement and on every exceptional edge).
"""

GHOSTS = {
    "fs_islink": "map[str,bool]",
    "fs_exists": "map[str,bool]",
    "fs_content": "map[str,str]",
    "fs_mode": "map[str,int]",
    "oserr": "str",
}

FIELDS = {
    "vsg.vhdlFile.vhdlFile.vhdlFile.filename": "str",
    "os.stat_result.st_mode": "int",
    "builtins.file.path": "str",
}

OSERRS = ["PermissionError", "FileNotFoundError", "OSError"]
UNCHANGED = dict(modifies=["ghost:oserr"], ensures=["oserr == (old(oserr) if old(oserr) != '' else $EXC)"])


def ext(params, **kw):
    d = dict(external=True, params=params, trusted="assumed POSIX / CPython contract of an external call (A3)")
    d.update(kw)
    return d


FIXED = "joinsep('\\n', LINES(oVhdlFile)[1:]) + '\\n'"

CONTRACTS = {
    # ------------------------------------------------------------------ external calls (assumed)
    "os.stat": ext(["path"], types={"path": "str"}, returns="obj:os.stat_result", raises=OSERRS, on_raise={"*": UNCHANGED}, ensures=["result.st_mode == fs_mode[path]", "fs_exists[path]"]),
    "builtins.open": ext(
        ["path", "mode", "encoding", "newline"],
        defaults={"mode": "r", "encoding": None, "newline": None},
        types={"path": "str"},
        returns="obj:builtins.file",
        raises=OSERRS,
        on_raise={"*": UNCHANGED},
        modifies=["ghost:fs_exists", "ghost:fs_content", "ghost:fs_mode"],
        # mode "w": creates or truncates; the mode bits of a created file are whatever the umask gives
        ensures=[
            "result.path == path",
            "fs_exists == store(old(fs_exists), path, True)",
            "fs_content == store(old(fs_content), path, '')",
            "forall_other_mode(fs_mode, old(fs_mode), path)",
        ],
    ),
    "builtins.file.write": ext(
        ["self", "s"],
        types={"s": "str"},
        raises=OSERRS,
        # a failing write may have written any prefix
        on_raise={"*": dict(modifies=["ghost:oserr", "ghost:fs_content"], ensures=["oserr == (old(oserr) if old(oserr) != '' else $EXC)", "partial_write(fs_content, old(fs_content), self.path, s)"])},
        modifies=["ghost:fs_content"],
        ensures=["fs_content == store(old(fs_content), self.path, old(fs_content)[self.path] + s)"],
    ),
    # not called by the unchanged tree; under (assumed) contract so that a change that starts to distinguish symbolic links is
    # still verified against the all-or-nothing clauses instead of leaving the subset
    "os.path.islink": ext(["path"], types={"path": "str"}, returns="bool", ensures=["result == fs_islink[path]"]),
    "os.chmod": ext(["path", "mode"], types={"path": "str", "mode": "int"}, raises=OSERRS, on_raise={"*": UNCHANGED}, modifies=["ghost:fs_mode"], ensures=["fs_mode == store(old(fs_mode), path, mode)"]),
    "os.replace": ext(
        ["src", "dst"],
        types={"src": "str", "dst": "str"},
        raises=OSERRS,
        on_raise={"*": UNCHANGED},  # rename(2) is atomic: it either happens or it does not
        modifies=["ghost:fs_exists", "ghost:fs_content", "ghost:fs_mode"],
        ensures=[
            "fs_content == store(old(fs_content), dst, old(fs_content)[src])",
            "fs_mode == store(old(fs_mode), dst, old(fs_mode)[src])",
            "fs_exists == store(store(old(fs_exists), dst, True), src, False)",
        ],
    ),
    "os.remove": ext(
        ["path"],
        types={"path": "str"},
        raises=["FileNotFoundError"],
        raises_when={"FileNotFoundError": "not fs_exists[path]"},
        modifies=["ghost:fs_exists"],
        ensures=["fs_exists == store(old(fs_exists), path, False)"],
        trusted="assumed: removing an existing file that this process created succeeds; a missing file raises FileNotFoundError",
    ),
    "shutil.copy2": ext(
        ["src", "dst"],
        types={"src": "str", "dst": "str"},
        raises=OSERRS,
        on_raise={"*": dict(modifies=["ghost:oserr", "ghost:fs_exists", "ghost:fs_content", "ghost:fs_mode"], ensures=["other_paths_unchanged(fs_exists, fs_content, fs_mode, old(fs_exists), old(fs_content), old(fs_mode), dst)"])},
        modifies=["ghost:fs_exists", "ghost:fs_content", "ghost:fs_mode"],
        ensures=["fs_exists == store(old(fs_exists), dst, True)", "fs_content == store(old(fs_content), dst, old(fs_content)[src])", "fs_mode == store(old(fs_mode), dst, old(fs_mode)[src])"],
    ),
    # get_lines: real contract in contracts/vhdlfile.py; LINES(self) is defined there as an observer
    # ------------------------------------------------------------------ vsg/apply_rules.py
    "vsg.apply_rules.write_vhdl_file": dict(
        types={"oVhdlFile": "obj:vsg.vhdlFile.vhdlFile.vhdlFile", "dConfig": "dict[str,str]"},
        # representation invariant of vhdlFile (every line of the model is terminated by a carriage_return token:
        # _processFile appends one per input line) — assumed here, observed by the bounded layer
        requires=["oserr == ''"],
        assume=["len(oVhdlFile.lAllObjects) == 0 or isinstance(oVhdlFile.lAllObjects[len(oVhdlFile.lAllObjects) - 1], parser.carriage_return)"],
        modifies=["ghost:fs_exists", "ghost:fs_content", "ghost:fs_mode", "ghost:oserr", "ghost:oplog"],
        ghost_exit={"oplog": "oplog + ['write']"},
        raises=["OSError", "FileNotFoundError"],
        # crash points and failing calls: whatever happens, the target holds its complete original or the complete
        # fixed content, with its original permission bits
        always=[
            "implies(old(fs_exists)[oVhdlFile.filename], fs_exists[oVhdlFile.filename])",
            "fs_mode[oVhdlFile.filename] == old(fs_mode)[oVhdlFile.filename]",
            "fs_content[oVhdlFile.filename] == old(fs_content)[oVhdlFile.filename] or fs_content[oVhdlFile.filename] == " + FIXED,
        ],
        ensures=[
            "oplog == old(oplog) + ['write']",
            "implies(oserr == '', fs_content[oVhdlFile.filename] == " + FIXED + ")",
            "oserr == '' or oserr == 'PermissionError'",  # only a PermissionError is swallowed
            "not fs_exists[oVhdlFile.filename + '.tmp']",  # temporary file removed
            "fs_mode[oVhdlFile.filename] == old(fs_mode)[oVhdlFile.filename]",
        ],
        ensures_on_raise={
            "OSError": ["not fs_exists[oVhdlFile.filename + '.tmp'] or (old(fs_exists)[oVhdlFile.filename + '.tmp'] and fs_content[oVhdlFile.filename + '.tmp'] == old(fs_content)[oVhdlFile.filename + '.tmp'])", "fs_content[oVhdlFile.filename] == old(fs_content)[oVhdlFile.filename]"],
            "FileNotFoundError": ["not fs_exists[oVhdlFile.filename + '.tmp'] or (old(fs_exists)[oVhdlFile.filename + '.tmp'] and fs_content[oVhdlFile.filename + '.tmp'] == old(fs_content)[oVhdlFile.filename + '.tmp'])", "fs_content[oVhdlFile.filename] == old(fs_content)[oVhdlFile.filename]"],
        },
    ),
    "vsg.apply_rules.create_backup_file": dict(
        types={"sFileName": "str"},
        modifies=["ghost:fs_exists", "ghost:fs_content", "ghost:fs_mode", "ghost:oserr", "ghost:oplog"],
        ghost_exit={"oplog": "oplog + ['backup']"},
        raises=["OSError", "FileNotFoundError", "PermissionError"],
        ensures=[
            "oplog == old(oplog) + ['backup']",
            "fs_content[sFileName + '.bak'] == old(fs_content)[sFileName]",
            "fs_mode[sFileName + '.bak'] == old(fs_mode)[sFileName]",
            "fs_content[sFileName] == old(fs_content)[sFileName] and fs_mode[sFileName] == old(fs_mode)[sFileName]",
            "oserr == old(oserr)",
        ],
    ),
}


def install(engine):
    """spec vocabulary for the ghost file system"""
    from pyvc.symex import UFS
    from pyvc.terms import BOOL, INT, REF, STR, And, App, Arr, Const, Eq, Implies, Ne, Or, PrefixOf, Select, Seq, T

    UFS["LINESOF"] = ([Seq(REF), Arr(REF, STR)], Seq(STR))

    def LINES(run, st, args, node):
        """LINES(f): the list get_lines() returns for the token list and token values f has now (observer; defined by
        the `defines` clause of vhdlFile.get_lines)"""
        from pyvc.values import ListV, Type, parse_type

        toks = run.read_field(st, args[0], "lAllObjects")
        ty, hk = run.field_info("vsg.parser.item", "value")
        vals = run.heap_arr(st, hk, ty)
        return ListV(run.new_cell(st, App("LINESOF", (run.raw(st, toks), vals), Seq(STR))), Type("str"))

    def forall_other_mode(run, st, args, node):
        new, old, path = args
        p = Const("p!q_mode%d" % id(node), STR)
        return T("#forall", (p, Ne(p, path), Eq(Select(new, p), Select(old, p))), BOOL)

    def partial_write(run, st, args, node):
        new, old, path, s = args
        pre = run.fresh("written_prefix", STR)
        from pyvc.terms import Concat, Store

        return And(PrefixOf(pre, s), Eq(new, Store(old, path, Concat(Select(old, path), pre))))

    def other_paths_unchanged(run, st, args, node):
        e, c, m, e0, c0, m0, dst = args
        p = Const("p!q_oth%d" % id(node), STR)
        return T("#forall", (p, Ne(p, dst), And(Eq(Select(e, p), Select(e0, p)), Eq(Select(c, p), Select(c0, p)), Eq(Select(m, p), Select(m0, p)))), BOOL)

    UFS["joinsep"] = ([STR, Seq(STR)], STR)

    def joinsep(run, st, args, node):
        return App("joinsep", (args[0], run.raw(st, args[1])), STR)

    engine.spec_funcs["joinsep"] = joinsep
    engine.spec_funcs["LINES"] = LINES
    engine.spec_funcs["forall_other_mode"] = forall_other_mode
    engine.spec_funcs["partial_write"] = partial_write
    engine.spec_funcs["other_paths_unchanged"] = other_paths_unchanged
