# -*- coding: utf-8 -*-
"""Helpers of the token-moving fix bases (phase 1, structure).  The bases themselves (move_token_next_to_another_token etc.) are not
under contract yet: the verification condition of pop + insert + insert + two normalisers did not discharge within the budget."""
ITEM = "obj:vsg.parser.item"
VIOL = "obj:vsg.violation.New"
S = "oViolation.oTokens.lTokens"
NBL = "(parser.whitespace, parser.carriage_return, parser.blank_line)"

FIELDS = {"vsg.vhdlFile.extract.tokens.New.sTokenValue": "opt[int]"}

CONTRACTS = {
    "vsg.vhdlFile.utils.remove_consecutive_whitespace_tokens": dict(
        types={"lTokens": "list[%s]" % ITEM},
        returns="list[%s]" % ITEM,
        locals={"lMyTokens": "list[%s]" % ITEM},
        # only white-space tokens that follow a white-space token are dropped
        ensures=["nonblank(result) == nonblank(lTokens)", "crs(result) == crs(lTokens)", "n_blank(result) == n_blank(lTokens)"],
        loops={1: dict(invariant=["nonblank(lMyTokens) == nonblank(lTokens[:_i])", "crs(lMyTokens) == crs(lTokens[:_i])", "n_blank(lMyTokens) == n_blank(lTokens[:_i])"])},
    ),
}
