# -*- coding: utf-8 -*-
"""Effect contracts of the _fix_violation implementations that serve most rules (DESIGN 3.0):
  token_case (phase 6, 243 rules), whitespace_between_tokens.Rule (phase 2, 171 rules), token_indent (phase 4, 102 rules).

S  = the tokens of the violation's region before the fix, S' after.  V_F = what the paired analysis guarantees about a
violation it adds (precondition of the fix).  Top-level clauses from the property statements:
  C01  the code tokens of S' are those of S (identity; phase 6: same tokens, value equal up to letter case)
  C02  comments are untouched          C03  only white-space tokens / only letter case change
  C07  no line break is added or removed          C10  the fixed region satisfies the analysis predicate
"""

ITEM = "obj:vsg.parser.item"
VIOL = "obj:vsg.violation.New"
WS = "parser.whitespace"

HOMS = {
    # tokens that are not white space of any kind (identity, in order): what a phase 2-5 fix must not touch
    "nonblank": dict(elem=ITEM, ctx=[], result="list[%s]" % ITEM, unit="([] if isinstance(x, (parser.whitespace, parser.carriage_return, parser.blank_line)) else [x])"),
    "nonws": dict(elem=ITEM, ctx=[], result="list[%s]" % ITEM, unit="([] if isinstance(x, parser.whitespace) else [x])"),
}

FIELDS = {
    "vsg.rules.token_indent.token_indent.indent_style": "str",
    "vsg.rules.token_indent.token_indent.indent_size": "int",
    "vsg.rules.whitespace_between_tokens.Rule.number_of_spaces": "val",
    "vsg.rule.Rule.indent_style": "str",
    "vsg.rule.Rule.indent_size": "int",
    "vsg.parser.item.has_tabs": "bool",
}

S = "oViolation.oTokens.lTokens"

CONTRACTS = {
    # ------------------------------------------------------------------ token_indent (phase 4)
    "vsg.rules.token_indent.token_indent._fix_violation": dict(
        types={"oViolation": VIOL},
        fields={"vsg.violation.New.action": "opt[str]"},
        requires=[
            # V_F: established by token_indent._analyze / create_violation (three shapes)
            "oViolation.action == 'remove_whitespace' or oViolation.action == 'adjust_whitespace' or oViolation.action == 'add_whitespace'",
            "implies(oViolation.action != 'add_whitespace', len(%s) == 2 and isinstance(%s[0], %s) and not isinstance(%s[1], (parser.whitespace, parser.carriage_return, parser.blank_line)))" % (S, S, WS, S),
            "implies(oViolation.action == 'adjust_whitespace', %s[1].indent is not None)" % S,
            "implies(oViolation.action == 'add_whitespace', len(%s) == 1 and %s[0].indent is not None and not isinstance(%s[0], (parser.whitespace, parser.carriage_return, parser.blank_line)))" % (S, S, S),
            "self.indent_size >= 0",
        ],
        modifies=["oViolation.oTokens.lTokens", "heap:item.value", "heap:item.has_tab", "heap:item.has_tabs", "heap:item.code_tags"],
        ensures=[
            # C01/C02/C03: every token that is not white space is still there, same object, same place in the order
            "nonblank(%s) == nonblank(old(%s))" % (S, S),
            # C07: no line break added or removed
            "ncr(%s) == ncr(old(%s))" % (S, S),
            # only white-space tokens are written: values of the other tokens are untouched
            "values(nonblank(%s)) == old(values(nonblank(%s)))" % (S, S),
            # C10: afterwards the region has the indentation the analysis asks for
            "implies(old(oViolation.action) == 'remove_whitespace', len(%s) == 1)" % S,
            "implies(old(oViolation.action) == 'adjust_whitespace' and self.indent_style == 'spaces', %s[0].value == ' ' * (self.indent_size * %s[1].indent))" % (S, S),
            "implies(old(oViolation.action) == 'add_whitespace' and self.indent_style == 'spaces', len(%s) == 2 and isinstance(%s[0], %s) and %s[0].value == ' ' * (%s[1].indent * self.indent_size))" % (S, S, WS, S, S),
        ],
    ),
    # ------------------------------------------------------------------ whitespace_between_tokens (phase 2)
    "vsg.rules.whitespace_between_tokens.Rule._fix_violation": dict(
        types={"oViolation": VIOL},
        fields={"vsg.violation.New.action": "opt[rec{spaces:int}]"},
        requires=[
            # V_F: regions have two or three tokens ([left, white space, right], [left, right], or a token and the two after it);
            # removing the space is only asked for when the middle token is white space (run-time monitor: observed on every
            # real call of the bounded universe, including the subclasses that choose their regions differently)
            "len(%s) == 2 or len(%s) == 3" % (S, S),
            "oViolation.action is not None",
            "implies(self.number_of_spaces == 0, len(%s) == 3 and isinstance(%s[1], %s))" % (S, S, WS),
            # zero spaces are only ever requested for a region whose middle token is white space (the analysis of adjacent
            # tokens asks for at least one space or for nothing)
            "implies(oViolation.action['spaces'] == 0, len(%s) == 3 and isinstance(%s[1], %s))" % (S, S, WS),
            "implies(isinstance(self.number_of_spaces, int), oViolation.action['spaces'] == self.number_of_spaces)",
        ],
        modifies=["oViolation.oTokens.lTokens", "heap:item.value", "heap:item.code_tags", "heap:item.has_tabs"],
        ensures=[
            "nonblank(%s) == nonblank(old(%s))" % (S, S),
            "ncr(%s) == ncr(old(%s))" % (S, S),
            "forall(lambda k: implies(not isinstance(old(%s)[k], parser.whitespace), old(%s)[k].value == old(values(%s))[k]), 0, len(old(%s)))" % (S, S, S, S),
            # C10: the middle token is white space of exactly the requested width (or gone when 0 is requested)
            # (stated over the requested width, not over how the code branches: removing the token and leaving an empty
            # white-space token are both "zero spaces")
            "implies(old(oViolation.action['spaces']) > 0, isinstance(%s[1], %s) and %s[1].value == ' ' * old(oViolation.action['spaces']))" % (S, WS, S),
            "implies(old(oViolation.action['spaces']) <= 0, len(%s) < len(old(%s)) or not isinstance(%s[1], %s) or %s[1].value == '')" % (S, S, S, WS, S),
        ],
    ),
    # ------------------------------------------------------------------ token_case (phase 6)
    "vsg.rules.token_case.token_case._fix_violation": dict(
        types={"oViolation": VIOL},
        fields={"vsg.violation.New.action": "opt[rec{value:opt[str],index:int}]"},
        requires=[
            "len(%s) >= 1" % S,
            "oViolation.action is not None",
            # the token objects of a region are distinct objects (assumed: a token object sits at one place of the list)
            "forall(lambda k: %s[k] != %s[0], 1, len(%s))" % (S, S, S),
            # V_F (ASSUMED: the analysis builds the expected value through dictionaries of checker functions, outside the
            # verifier's subset; observed by the bounded layer): the expected value differs from the actual one in letter case only
            "implies(oViolation.action['value'] is not None, lower(oViolation.action['value']) == lower(%s[0].value) and len(oViolation.action['value']) == len(%s[0].value))" % (S, S),
        ],
        modifies=["heap:item.value", "oViolation.oTokens.lTokens"],
        ensures=[
            # C18 (remap=False is sound): same token objects, same length of the region
            "%s == old(%s)" % (S, S),
            # C01/C03: only the first token's value may change, and only in letter case, keeping its length
            "forall(lambda k: %s[k].value == old(values(%s))[k], 1, len(%s))" % (S, S, S),
            "lower(%s[0].value) == lower(old(values(%s))[0])" % (S, S),
            "len(%s[0].value) == len(old(values(%s))[0])" % (S, S),
            # C10: the region now carries the expected value
            "implies(oViolation.action['value'] is not None, %s[0].value == oViolation.action['value'])" % S,
        ],
    ),
}


def install(engine):
    from pyvc.terms import STR, App

    def lower(run, st, args, node):
        return App("lower", (run.raw(st, args[0]),), STR)

    engine.spec_funcs["lower"] = lower

TOI = "obj:vsg.vhdlFile.extract.tokens.New"
NB = "(parser.whitespace, parser.carriage_return, parser.blank_line)"
T_ = "lToi[{k}].lTokens"
V_ = "self.violations[{k}].oTokens.lTokens"

# V_F of token_indent as a predicate over violation k of self.violations
VF_INDENT = (
    "(self.violations[k].action == 'remove_whitespace' or self.violations[k].action == 'adjust_whitespace' or self.violations[k].action == 'add_whitespace')"
    " and implies(self.violations[k].action != 'add_whitespace', len({V}) == 2 and isinstance({V}[0], parser.whitespace) and not isinstance({V}[1], {NB}))"
    " and implies(self.violations[k].action == 'adjust_whitespace', {V}[1].indent is not None)"
    " and implies(self.violations[k].action == 'add_whitespace', len({V}) == 1 and {V}[0].indent is not None and not isinstance({V}[0], {NB}))"
).format(V=V_.format(k="k"), NB=NB)

CONTRACTS.update(
    {
        "vsg.rules.token_indent.token_indent._analyze": dict(
            types={"lToi": "list[%s]" % TOI},
            fields={"vsg.violation.New.action": "opt[str]", "vsg.violation.New.remap": "bool", "vsg.violation.New.fix_blank_lines": "bool", "vsg.violation.New.sSolution": "str"},
            requires=[
                # shape of the regions handed over by get_tokens_at_beginning_of_line_matching (assumed here; C18 observes that
                # regions are slices of the list): [whitespace, token] or [token], the token being one of the rule's classes
                "forall(lambda j: (len({T}) == 2 and isinstance({T}[0], parser.whitespace) and not isinstance({T}[1], {NB})) or (len({T}) == 1 and not isinstance({T}[0], {NB})), 0, len(lToi))".format(T=T_.format(k="j"), NB=NB),
                "self.indent_style == 'spaces' or self.indent_style == 'smart_tabs'",
            ],
            # the action and solution fields are written on the violation objects the analysis creates
            modifies=["self.violations", "heap:New.action", "heap:New.sSolution"],
            ensures=[
                # every violation the analysis adds satisfies the precondition of _fix_violation (V_F)
                "len(self.violations) >= len(old(self.violations))",
                "forall(lambda k: %s, len(old(self.violations)), len(self.violations))" % VF_INDENT,
            ],
            loops={
                1: dict(
                    invariant=[
                        "len(self.violations) >= len(old(self.violations))",
                        "forall(lambda k: %s, len(old(self.violations)), len(self.violations))" % VF_INDENT,
                    ]
                )
            },
        ),
    }
)

# accepted widths of a white-space token under the option value n (the tests of analyze_whitespace_token, in its order)
ACCEPTS = (
    "(({w} == {n}) if isinstance({n}, int) else (({w} >= int({n}[2:])) if {n}.startswith('>=') else (({w} >= int({n}[1:]) + 1) if {n}.startswith('>') else"
    " (({w} <= int({n}[2:])) if {n}.startswith('<=') else (({w} <= int({n}[1:]) - 1) if {n}.startswith('<') else (({w} >= int({n}[:-1])) if {n}.endswith('+') else True))))))"
)
VF_WS = (
    "self.violations[k].action is not None"
    " and (len({V}) == 3 or len({V}) == 2)"
    " and implies(self.number_of_spaces == 0, len({V}) == 3 and isinstance({V}[1], parser.whitespace))"
    " and implies(self.violations[k].action['spaces'] == 0, len({V}) == 3 and isinstance({V}[1], parser.whitespace))"
    " and implies(isinstance(self.number_of_spaces, int), self.violations[k].action['spaces'] == self.number_of_spaces)"
    # C10: the width the analysis asks for is a width the same analysis accepts (otherwise the rule reports again right after its own fix)
    " and " + ACCEPTS.format(w="self.violations[k].action['spaces']", n="self.number_of_spaces")
).format(V=V_.format(k="k"), NB=NB)

WSFIELDS = {"vsg.violation.New.action": "opt[rec{spaces:int}]", "vsg.violation.New.remap": "bool", "vsg.violation.New.fix_blank_lines": "bool", "vsg.violation.New.sSolution": "str"}

CONTRACTS.update(
    {
        "vsg.rules.whitespace_between_tokens.Rule._analyze": dict(
            types={"lToi": "list[%s]" % TOI},
            fields=WSFIELDS,
            dict_literals="record",
            requires=[
                # shape of the regions: get_sequence_of_tokens_matching([left, whitespace, right]) / ([left, right]) in the base
                # class, get_token_and_n_tokens_after_it(tokens, 2) and the like in its subclasses: two or three tokens (assumed
                # here; observed by the run-time monitor through V_F)
                "forall(lambda j: len({T}) == 3 or len({T}) == 2, 0, len(lToi))".format(T=T_.format(k="j")),
            # a valid option value (docs/configuring_whitespace_rules.rst): an integer, or a string '>N', '>=N', '<N', '<=N', 'N+';
            # int() of a malformed N raises ValueError
            "isinstance(self.number_of_spaces, int) or self.number_of_spaces.startswith('>') or self.number_of_spaces.startswith('<') or self.number_of_spaces.endswith('+')",
            # ... and only one of these forms ('<3+' is not an option value)
            "isinstance(self.number_of_spaces, int) or not self.number_of_spaces.endswith('+') or not (self.number_of_spaces.startswith('>') or self.number_of_spaces.startswith('<'))",
            ],
            raises=["ValueError"],
            modifies=["self.violations"],
            ensures=[
                "len(self.violations) >= len(old(self.violations))",
                "forall(lambda k: %s, len(old(self.violations)), len(self.violations))" % VF_WS,
            ],
            loops={
                1: dict(
                    invariant=[
                        "len(self.violations) >= len(old(self.violations))",
                        "forall(lambda k: %s, len(old(self.violations)), len(self.violations))" % VF_WS,
                    ]
                )
            },
        ),
    }
)

CONTRACTS["vsg.rules.whitespace_between_tokens.Rule.create_violation"] = dict(
    types={"oToi": TOI, "iNumSpaces": "opt[val]"},
    fields=WSFIELDS,
    dict_literals="record",
    requires=["iNumSpaces is not None", "isinstance(iNumSpaces, int)", "len(oToi.lTokens) >= 2"],
    modifies=["self.violations"],
    ensures=[
        # at most one violation is appended (none if a code tag suppresses it); it refers to exactly this region and
        # carries the requested width
        "len(self.violations) == len(old(self.violations)) or len(self.violations) == len(old(self.violations)) + 1",
        "self.violations[:len(old(self.violations))] == old(self.violations)",
        "forall(lambda j: self.violations[j] == old(self.violations)[j], 0, len(old(self.violations)))",
        "implies(len(self.violations) > len(old(self.violations)), self.violations[len(old(self.violations))].oTokens == oToi and self.violations[len(old(self.violations))].action is not None and self.violations[len(old(self.violations))].action['spaces'] == iNumSpaces)",
    ],
)

# ------------------------------------------------------------------------------------------------ more fix bases
# Effect contracts (C01/C02/C03: the non-white-space tokens of the region are the same objects in the same order, and no value
# of such a token is written: item.value is either outside the frame or written at white-space tokens only; C07 where the phase may not change the line count).  The preconditions V_F are what the base's _analyze puts into the
# action dictionary; they are ASSUMED here (the analyses build them through dictionaries and regions outside the subset) and
# observed by the bounded layer, which evaluates the same effect clauses at every real rule.fix().
ALIGN = dict(
    types={"oViolation": VIOL},
    fields={"vsg.violation.New.action": "opt[rec{token_index:int,adjust:int,token_column:int,left_column:int,line_number:int,token_value:str}]"},
    requires=[
        "oViolation.action is not None",
        # the region names the aligned token (index 0 occurs: the token is then the first of its line and of the region,
        # and lTokens[-1] is consulted; the run-time monitor showed it on tests/vhdlFile/shared_variable_declaration)
        "0 <= oViolation.action['token_index'] and oViolation.action['token_index'] < len(%s)" % S,
    ],
    modifies=["oViolation.oTokens.lTokens", "heap:item.value", "heap:item.code_tags", "heap:item.has_tabs"],
    ensures=[
        "nonblank(%s) == nonblank(old(%s))" % (S, S),
        "ncr(%s) == ncr(old(%s))" % (S, S),
        # the only value that is written is that of a white-space token
        "forall(lambda k: implies(not isinstance(old(%s)[k], parser.whitespace), old(%s)[k].value == old(values(%s))[k]), 0, len(old(%s)))" % (S, S, S, S),
    ],
)
BLANK_ACTION = {"vsg.violation.New.action": "opt[rec{action:str}]"}
BLANK_APPEND = dict(
    types={"oViolation": VIOL},
    fields=BLANK_ACTION,
    requires=[
        "oViolation.action is not None",
        # V_F: a 'Remove' is only asked for a region that consists of blank lines, white space and line breaks
        "implies(oViolation.action['action'] == 'Remove', nonblank(%s) == [])" % S,
    ],
    modifies=["oViolation.oTokens.lTokens"],
    ensures=[
        # vertical-spacing rules add or drop blank lines only: every other token is still there, same object, same order
        "nonblank(%s) == nonblank(old(%s))" % (S, S),
        "implies(old(oViolation.action['action']) == 'Insert', %s == old(%s) + [%s[len(%s) - 2], %s[len(%s) - 1]] and isinstance(%s[len(%s) - 2], parser.carriage_return) and isinstance(%s[len(%s) - 1], parser.blank_line))" % (S, S, S, S, S, S, S, S, S, S),
        "implies(old(oViolation.action['action']) == 'Remove', %s == [])" % S,
    ],
)
CONTRACTS.update(
    {
        "vsg.rules.align_tokens_in_region_between_tokens.align_tokens_in_region_between_tokens._fix_violation": dict(ALIGN),
        "vsg.rules.align_tokens_in_region_between_tokens_skipping_lines_starting_with_tokens.align_tokens_in_region_between_tokens_skipping_lines_starting_with_tokens._fix_violation": dict(ALIGN),
        "vsg.rules.previous_line.previous_line._fix_violation": dict(BLANK_APPEND),
        "vsg.rules.blank_line_above_line_starting_with_token.blank_line_above_line_starting_with_token._fix_violation": dict(BLANK_APPEND),
        "vsg.rules.blank_line_below_line_ending_with_token.blank_line_below_line_ending_with_token._fix_violation": dict(
            types={"oViolation": VIOL},
            fields=BLANK_ACTION,
            requires=["oViolation.action is not None", "len(%s) >= 1" % S, "implies(oViolation.action['action'] == 'Remove', nonblank(%s) == [])" % S],
            modifies=["oViolation.oTokens.lTokens", "heap:item.code_tags"],
            ensures=[
                "nonblank(%s) == nonblank(old(%s))" % (S, S),
                "implies(old(oViolation.action['action']) == 'Insert', len(%s) == len(old(%s)) + 2 and isinstance(%s[0], parser.blank_line) and isinstance(%s[1], parser.carriage_return) and %s[2:] == old(%s))" % (S, S, S, S, S, S),
                "implies(old(oViolation.action['action']) == 'Remove', %s == [])" % S,
            ],
        ),
        "vsg.rules.remove_excessive_blank_lines_above_line_starting_with_token.remove_excessive_blank_lines_above_line_starting_with_token._fix_violation": dict(
            types={"oViolation": VIOL},
            fields={"vsg.violation.New.action": "opt[rec{index:int}]"},
            requires=[
                "oViolation.action is not None",
                "0 <= oViolation.action['index'] and oViolation.action['index'] <= len(%s)" % S,
                # V_F: what is cut off is blank lines and line breaks only
                "nonblank(%s[oViolation.action['index']:]) == []" % S,
            ],
            modifies=["oViolation.oTokens.lTokens"],
            ensures=["nonblank(%s) == nonblank(old(%s))" % (S, S), "%s == old(%s)[:oViolation.action['index']]" % (S, S)],
        ),
        "vsg.rules.consistent_token_case.consistent_token_case._fix_violation": dict(
            types={"oViolation": VIOL},
            fields={"vsg.violation.New.action": "opt[rec{expected:str}]"},
            requires=[
                "len(%s) >= 1" % S,
                "oViolation.action is not None",
                "forall(lambda k: %s[k] != %s[0], 1, len(%s))" % (S, S, S),
                # V_F (assumed): the expected spelling is that of an earlier declaration, equal up to letter case
                "lower(oViolation.action['expected']) == lower(%s[0].value) and len(oViolation.action['expected']) == len(%s[0].value)" % (S, S),
            ],
            modifies=["heap:item.value", "oViolation.oTokens.lTokens"],
            ensures=[
                "%s == old(%s)" % (S, S),
                "forall(lambda k: %s[k].value == old(values(%s))[k], 1, len(%s))" % (S, S, S),
                "lower(%s[0].value) == lower(old(values(%s))[0])" % (S, S),
                "len(%s[0].value) == len(old(values(%s))[0])" % (S, S),
                "%s[0].value == oViolation.action['expected']" % S,
            ],
        ),
    }
)

# ------------------------------------------------------------------------------------------------ line-splitting bases (phase 1)
CONTRACTS.update(
    {
        "vsg.rules.insert_carriage_return_after_token_if_it_is_not_followed_by_a_comment.insert_carriage_return_after_token_if_it_is_not_followed_by_a_comment._fix_violation": dict(
            types={"oViolation": VIOL},
            requires=["len(%s) >= 1" % S],
            modifies=["oViolation.oTokens.lTokens", "heap:item.code_tags"],
            ensures=[
                # a line break is inserted behind the first token of the region and nothing else happens
                "len(%s) == len(old(%s)) + 1" % (S, S),
                "%s[:1] == old(%s)[:1] and isinstance(%s[1], parser.carriage_return) and %s[2:] == old(%s)[1:]" % (S, S, S, S, S),
                "nonblank(%s) == nonblank(old(%s))" % (S, S),
            ],
        ),
        "vsg.rules.split_line_at_token.split_line_at_token._fix_violation": dict(
            types={"oViolation": VIOL},
            requires=["len(%s) >= 2" % S],
            modifies=["oViolation.oTokens.lTokens", "heap:item.code_tags"],
            ensures=[
                "len(%s) == len(old(%s)) + 1" % (S, S),
                "nonblank(%s) == nonblank(old(%s))" % (S, S),
                "ncr(%s) == ncr(old(%s)) + 1" % (S, S),
            ],
        ),
    }
)

# naming rules (phase 7): token_prefix (token_suffix inherits the do-nothing default) never sets an action on their violations, so even when a user configures
# 'fixable: true' the fix does nothing (C03: naming rules never change the file)
for _b in ("token_prefix",):
    CONTRACTS["vsg.rules.%s.%s._fix_violation" % (_b, _b)] = dict(
        types={"oViolation": VIOL},
        fields={"vsg.violation.New.action": "opt[str]"},
        requires=["oViolation.action is None"],
        modifies=[],
        ensures=["%s == old(%s)" % (S, S)],
    )
