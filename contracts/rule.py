# -*- coding: utf-8 -*-
"""Contracts for /repo/vsg/rule.py and /repo/vsg/rule_list.py.

Serves C13 (phase gating), C20 (--fix_only), C03 (gating by disable / fixable / severity),
C06 (check_rules frame), C14 (exit flag).

Ghost state (specification only, no counterpart in the code):
  oplog : list[str]  -- the order of file-level operations as seen by rule_list:
                        "A:<rule id>" = Rule.analyze ran, "U" = vhdlFile.update was called (only a fixable rule's fix() does that),
                        "indent", "blank", "trail", "map" = the vhdlFile normalisers.
  fixlog: list[obj]  -- the violations handed to _fix_violation, in order.
  nerr  : int        -- number of violations produced so far by analyses of error-severity rules.
"""

RULE = "obj:vsg.rule.Rule"
VIOL = "obj:vsg.violation.New"
FIXONLY = "opt[rec{fix?:rec{rule?:dict[str,list[val]]}}]"

GHOSTS = {
    "nphases": "int",  # number of phases the last check_rules visited (so that callers can name it)
    "nerr": "int",
    "oplog": "list[str]",
    "fixlog": "list[" + VIOL + "]",
}

FIELDS = {
    "vsg.rule.Rule.violations": "list[" + VIOL + "]",
    "vsg.rule.Rule.had_violations": "bool",
    "vsg.rule.Rule.fixable": "bool",
    "vsg.rule.Rule.disable": "bool",
    "vsg.rule.Rule.debug": "bool",
    "vsg.rule.Rule.remap": "bool",
    "vsg.rule.Rule.phase": "int",
    "vsg.rule.Rule.subphase": "int",
    "vsg.rule.Rule.unique_id": "str",
    "vsg.rule.Rule.user_error_message": "str",
    "vsg.rule.Rule.severity": "obj:vsg.severity.error",
    "vsg.rule.Rule.prerequisites": "list[" + RULE + "]",
    "vsg.severity.error.type": "str",
    "vsg.severity.error.name": "str",
    "vsg.violation.New.iLine": "int",
    "vsg.violation.New.sSolution": "str",
    "vsg.violation.New.oTokens": "obj:vsg.vhdlFile.extract.tokens.New",
    "vsg.rule_list.rule_list.rules": "list[" + RULE + "]",
    "vsg.rule_list.rule_list.iNumberRulesRan": "int",
    "vsg.rule_list.rule_list.lastPhaseRan": "int",
    "vsg.rule_list.rule_list.violations": "bool",
    "vsg.rule_list.rule_list.had_violations": "bool",
    "vsg.rule_list.rule_list.oVhdlFile": "obj:vsg.vhdlFile.vhdlFile.vhdlFile",
}

# ---------------------------------------------------------------------------------------------
# spec functions (homomorphic over concatenation; the unit expression is the definition)
HOMS = {
    # rule filters, exactly the predicates the property statement names
    "in_phase": dict(elem=RULE, ctx=[("p", "int")], result="list[%s]" % RULE, unit="[x] if x.phase == p else []"),
    "in_subphase": dict(elem=RULE, ctx=[("s", "int")], result="list[%s]" % RULE, unit="[x] if x.subphase == s else []"),
    "enabled": dict(elem=RULE, ctx=[], result="list[%s]" % RULE, unit="[x] if not x.disable else []"),
    "noprereq": dict(elem=RULE, ctx=[], result="list[%s]" % RULE, unit="[x] if x.prerequisites == [] else []"),
    "hasprereq": dict(elem=RULE, ctx=[], result="list[%s]" % RULE, unit="[] if x.prerequisites == [] else [x]"),
    # events produced by one rule inside rule_list.fix / check_rules
    "fix_events": dict(
        elem=RULE,
        ctx=[],
        result="list[str]",
        unit="((['A:' + x.unique_id, 'U'] if x.fixable else []) if x.severity.type == 'error' else ['A:' + x.unique_id])",
    ),
    "check_events": dict(elem=RULE, ctx=[], result="list[str]", unit="['A:' + x.unique_id]"),
    # sub-phases 0..5 of one phase, and phases
    "fix_subphases": dict(
        elem="int",
        ctx=[("rules", "list[%s]" % RULE), ("p", "int")],
        result="list[str]",
        unit="fix_events(noprereq(enabled(in_subphase(in_phase(rules, p), x))) + hasprereq(enabled(in_subphase(in_phase(rules, p), x))))",
    ),
    "fix_phases": dict(
        elem="int",
        ctx=[("rules", "list[%s]" % RULE), ("skip", "list[int]")],
        result="list[str]",
        unit="((['indent'] if x == 1 else []) if x in skip else ((['indent'] if x == 4 else []) + fix_subphases(irange(0, 6), rules, x) + (['blank', 'trail', 'map'] if x == 1 else [])))",
    ),
    "check_subphases": dict(
        elem="int",
        ctx=[("rules", "list[%s]" % RULE), ("p", "int")],
        result="list[str]",
        unit="check_events(enabled(in_subphase(in_phase(rules, p), x)))",
    ),
    "check_phases": dict(
        elem="int",
        ctx=[("rules", "list[%s]" % RULE), ("skip", "list[int]")],
        result="list[str]",
        unit="([] if x in skip else check_subphases(irange(0, 6), rules, x))",
    ),
    # --fix_only: violations whose line is listed
    "on_lines": dict(elem=VIOL, ctx=[("lines", "list[val]")], result="list[%s]" % VIOL, unit="[x] if x.iLine in lines else []"),
}

LISTED = "('fix' in dFixOnly and 'rule' in dFixOnly['fix'] and self.unique_id in dFixOnly['fix']['rule'])"
LINES = "dFixOnly['fix']['rule'][self.unique_id]"

CONTRACTS = {
    # ------------------------------------------------------------------ abstract (virtual) methods
    # Rule.analyze dispatches to _get_tokens_of_interest/_analyze of ~960 rule classes; its frame is
    # ASSUMED here (it is what C06 checks: effect scan + bounded snapshot over the corpus).
    "vsg.rule.Rule.analyze": dict(
        types={"oFile": "obj:vsg.vhdlFile.vhdlFile.vhdlFile"},
        modifies=["self.violations", "ghost:oplog", "ghost:nerr"],
        ensures=[
            "oplog == old(oplog) + ['A:' + self.unique_id]",
            "nerr == old(nerr) + (len(self.violations) if self.severity.type == 'error' else 0)",
        ],
        trusted="abstract contract of a virtual method (frame of analysis); see C06",
    ),
    "vsg.rule.Rule._fix_violation": dict(
        types={"oViolation": VIOL},
        # a fix rewrites the tokens of its own violation: their values, indents and the region's token list
        modifies=["ghost:fixlog", "heap:item.value", "heap:item.indent", "heap:New.lTokens"],
        ensures=["fixlog == old(fixlog) + [oViolation]"],
        trusted="abstract contract of a virtual method: what a fix does to the tokens of its own violation is the subject of C01-C03, not of the gating proofs",
    ),
    # the default implementation (134 rule objects inherit it: every unfixable rule, the naming rules of phase 7, the
    # deprecated placeholders): it does nothing at all, so those rules never change the file (C03)
    "vsg.rule.Rule._fix_violation@impl": dict(types={"oViolation": VIOL}, modifies=[], ensures=["oViolation.oTokens.lTokens == old(oViolation.oTokens.lTokens)"]),
    "vsg.vhdlFile.vhdlFile.vhdlFile.set_token_indent": dict(modifies=["ghost:oplog", "heap:item.indent"], ensures=["oplog == old(oplog) + ['indent']"], trusted="ghost log stub"),
    # the two normalisers that run after phase 1 are verified (their bodies call vsg.vhdlFile.utils.fix_blank_lines /
    # fix_trailing_whitespace, whose contracts are in contracts/vhdlfile.py): nothing but blank-line markers and white space
    # in front of a line break is added or dropped; the event for the operation log is ghost code
    "vsg.vhdlFile.vhdlFile.vhdlFile.fix_blank_lines": dict(
        modifies=["ghost:oplog", "self.lAllObjects"],
        ghost_exit={"oplog": "oplog + ['blank']"},
        ensures=["oplog == old(oplog) + ['blank']", "nonblank(self.lAllObjects) == nonblank(old(self.lAllObjects))", "crs(self.lAllObjects) == crs(old(self.lAllObjects))"],
    ),
    "vsg.vhdlFile.vhdlFile.vhdlFile.fix_trailing_whitespace": dict(
        modifies=["ghost:oplog", "self.lAllObjects"],
        ghost_exit={"oplog": "oplog + ['trail']"},
        ensures=["oplog == old(oplog) + ['trail']", "nonblank(self.lAllObjects) == nonblank(old(self.lAllObjects))", "crs(self.lAllObjects) == crs(old(self.lAllObjects))", "n_blank(self.lAllObjects) == n_blank(old(self.lAllObjects))"],
    ),
    "vsg.vhdlFile.vhdlFile.vhdlFile.update_token_map": dict(
        modifies=["ghost:oplog", "self.oTokenMap"],
        ghost_exit={"oplog": "oplog + ['map']"},
        ensures=["oplog == old(oplog) + ['map']", "self.oTokenMap == INDEX(self.lAllObjects)"],
    ),
    # ------------------------------------------------------------------ vsg/rule.py
    "vsg.rule.Rule._filter_out_fix_only_violations": dict(
        types={"dFixOnly": FIXONLY},
        modifies=["self.violations"],
        ensures=[
            "implies(dFixOnly is None, self.violations == old(self.violations))",
            "implies(dFixOnly is not None and not %s, self.violations == [])" % LISTED,
            "implies(dFixOnly is not None and %s and 'all' in %s, self.violations == old(self.violations))" % (LISTED, LINES),
            "implies(dFixOnly is not None and %s and 'all' not in %s, self.violations == on_lines(old(self.violations), %s))" % (LISTED, LINES, LINES),
            "implies(dFixOnly is not None and %s and 'all' not in %s, forall(lambda k: self.violations[k].iLine in %s, 0, len(self.violations)))" % (LISTED, LINES, LINES),
        ],
        loops={1: dict(invariant=["lTemp == on_lines(self.violations[:_i], %s)" % LINES, "forall(lambda k: lTemp[k].iLine in %s, 0, len(lTemp))" % LINES, "dFixOnly is not None", "implies(len(self.violations) > 0, %s)" % LISTED])},
        locals={"lTemp": "list[%s]" % VIOL},
    ),
    "vsg.rule.Rule.fix": dict(
        types={"oFile": "obj:vsg.vhdlFile.vhdlFile.vhdlFile", "dFixOnly": FIXONLY},
        modifies=["self.violations", "self.had_violations", "ghost:oplog", "ghost:fixlog", "oFile.lAllObjects", "oFile.oTokenMap", "heap:item.value", "heap:item.indent", "heap:New.lTokens"],
        ensures=[
            # a rule configured 'fixable: false' does nothing at all
            "implies(not self.fixable, oplog == old(oplog) and fixlog == old(fixlog) and self.violations == old(self.violations) and self.had_violations == old(self.had_violations))",
            "implies(self.fixable, oplog == old(oplog) + ['A:' + self.unique_id, 'U'])",
            "implies(self.fixable, self.violations == [])",
            # the 'had violations' flag is set exactly when this call handed a violation to _fix_violation (it is sticky)
            "self.had_violations == (old(self.had_violations) or len(fixlog) > len(old(fixlog)))",
            "len(fixlog) >= len(old(fixlog))",
            # --fix_only: nothing listed for this rule => nothing is fixed; lines listed => only violations on those lines are fixed
            "implies(dFixOnly is not None and not %s, fixlog == old(fixlog))" % LISTED,
            "implies(dFixOnly is not None and %s and 'all' not in %s, forall(lambda k: fixlog[k].iLine in %s, len(old(fixlog)), len(fixlog)))" % (LISTED, LINES, LINES),
            "len(fixlog) >= len(old(fixlog))",
        ],
        loops={
            1: dict(
                invariant=[
                    "self.had_violations == (entry(self.had_violations) or _i > 0)",
                    "len(fixlog) == len(entry(fixlog)) + _i",
                    "implies(_i == 0, fixlog == entry(fixlog))",
                    "implies(dFixOnly is not None and %s and 'all' not in %s, forall(lambda k: fixlog[k].iLine in %s, len(entry(fixlog)), len(fixlog)))" % (LISTED, LINES, LINES),
                ]
            )
        },
    ),
}

RL = "obj:vsg.rule_list.rule_list"
SKIP = "opt[list[int]]"

CONTRACTS.update(
    {
        # ------------------------------------------------------------------ vsg/rule_list.py helpers
        "vsg.rule_list.rule_list.get_rules_in_phase": dict(
            types={"iPhaseNumber": "int"},
            returns="list[%s]" % RULE,
            locals={"lReturn": "list[%s]" % RULE},
            ensures=["result == in_phase(self.rules, iPhaseNumber)"],
            loops={1: dict(invariant=["lReturn == in_phase(self.rules[:_i], iPhaseNumber)"])},
        ),
        "vsg.rule_list.rule_list.get_rules_in_subphase": dict(
            types={"lRules": "list[%s]" % RULE, "iSubPhase": "int"},
            returns="list[%s]" % RULE,
            locals={"lReturn": "list[%s]" % RULE},
            ensures=["result == in_subphase(lRules, iSubPhase)"],
            loops={1: dict(invariant=["lReturn == in_subphase(lRules[:_i], iSubPhase)"])},
        ),
        "vsg.rule_list.filter_out_disabled_rules": dict(
            types={"lRules": "list[%s]" % RULE},
            returns="list[%s]" % RULE,
            locals={"lReturn": "list[%s]" % RULE},
            ensures=["result == enabled(lRules)"],
            loops={1: dict(invariant=["lReturn == enabled(lRules[:_i])"])},
        ),
        # (not called by the unchanged tree; under contract so that a change that starts to use it is still verifiable)
        "vsg.rule_list.rule_prerequisites_met": dict(
            types={"oRule": RULE, "lTestsRan": "list[str]"},
            returns="bool",
            ensures=["implies(len(oRule.prerequisites) == 0, result)", "implies(result and len(oRule.prerequisites) > 0, exists(lambda k: oRule.prerequisites[k].unique_id in lTestsRan, 0, len(oRule.prerequisites)))"],
            loops={1: dict(invariant=["forall(lambda k: oRule.prerequisites[k].unique_id not in lTestsRan, 0, _i)"])},
        ),
        "vsg.rule_list.enforce_prerequisites": dict(
            types={"lRules": "list[%s]" % RULE},
            returns="list[%s]" % RULE,
            locals={"lReturn": "list[%s]" % RULE, "lPrereqs": "list[%s]" % RULE},
            ensures=["result == noprereq(lRules) + hasprereq(lRules)"],
            loops={1: dict(invariant=["lReturn == noprereq(lRules[:_i])", "lPrereqs == hasprereq(lRules[:_i])"])},
        ),
        # ------------------------------------------------------------------ rule_list.fix  (C13 F1/F2, C03 gating)
        "vsg.rule_list.rule_list.fix": dict(
            types={"iFixPhase": "int", "lSkipPhase": SKIP, "dFixOnly": FIXONLY},
            # a fresh rule list: nothing has been fixed by it or by its rules yet (what rule_list.__init__ / Rule.__init__ establish)
            requires=["not self.had_violations", "forall(lambda k: not self.rules[k].had_violations, 0, len(self.rules))"],
            locals={"oRule": RULE},
            modifies=["self.had_violations", "heap:Rule.violations", "heap:Rule.had_violations", "ghost:oplog", "ghost:fixlog", "heap:vhdlFile.lAllObjects", "heap:vhdlFile.oTokenMap", "heap:item.value", "heap:item.indent", "heap:New.lTokens"],
            ensures=[
                # C04c / C08: the flag that decides whether the file is written back is set exactly when some violation was
                # handed to a _fix_violation (so: nothing fixed <=> nothing written, something fixed <=> written)
                "self.had_violations == (len(fixlog) > len(old(fixlog)))",
                "len(fixlog) >= len(old(fixlog))",
                # exactly the phases 1..iFixPhase that are not skipped, sub-phases 0..5 in order, enabled rules only,
                # rules with prerequisites last; error-type rules are fixed ('A','U'), other severities only analysed ('A'),
                # rules configured fixable:false produce no event at all; normalisers after phase 1, indent before phase 4
                "oplog == old(oplog) + fix_phases(irange(1, iFixPhase + 1), self.rules, (lSkipPhase if lSkipPhase is not None else []))",
            ],
            loops={
                1: dict(invariant=["oplog == old(oplog) + fix_phases(irange(1, 1 + _i), self.rules, lSkipPhase)", "self.had_violations == (len(fixlog) > len(old(fixlog)))", "forall(lambda k: implies(self.rules[k].had_violations, len(fixlog) > len(old(fixlog))), 0, len(self.rules))", "len(fixlog) >= len(entry(fixlog))"]),
                2: dict(invariant=["oplog == entry(oplog) + fix_subphases(irange(0, _i), self.rules, phase)", "self.had_violations == (len(fixlog) > len(old(fixlog)))", "forall(lambda k: implies(self.rules[k].had_violations, len(fixlog) > len(old(fixlog))), 0, len(self.rules))", "len(fixlog) >= len(entry(fixlog))"]),
                3: dict(invariant=["oplog == entry(oplog) + fix_events(lRules[:_i])", "self.had_violations == (len(fixlog) > len(old(fixlog)))", "forall(lambda k: implies(self.rules[k].had_violations, len(fixlog) > len(old(fixlog))), 0, len(self.rules))", "len(fixlog) >= len(entry(fixlog))"]),
            },
        ),
        # ------------------------------------------------------------------ rule_list.check_rules  (C13 G1-G4)
        "vsg.rule_list.rule_list.check_rules": dict(
            types={"bAllPhases": "bool", "lSkipPhase": SKIP},
            modifies=["self.iNumberRulesRan", "self.lastPhaseRan", "self.violations", "heap:Rule.violations", "ghost:oplog", "ghost:nerr", "ghost:nphases"],
            ghost_exit={"nphases": "_n1"},
            locals={"oRule": RULE},
            ensures=[
                "nphases == _n1",
                # G1/G2: the analysed rules are exactly the enabled rules of the non-skipped phases 1.._n1, each once,
                #        in (phase, sub-phase, list) order   (_n1 = number of phases visited)
                "oplog == old(oplog) + check_phases(irange(1, 1 + _n1), self.rules, (lSkipPhase if lSkipPhase is not None else []))",
                "1 <= _n1 and _n1 <= 7",
                # G3: all phases with --all_phases; otherwise stop after the FIRST phase with an error-severity violation
                "implies(bAllPhases, _n1 == 7)",
                "implies(_n1 < 7, self.violations and not bAllPhases)",
                "implies(not bAllPhases and self.violations, lasthead(1, nerr) == old(nerr) and lasthead(1, oplog) == old(oplog) + check_phases(irange(1, _n1), self.rules, (lSkipPhase if lSkipPhase is not None else [])))",
                # G4: the exit flag is set exactly when an error-severity violation was produced (warnings never set it)
                "self.violations == (nerr > old(nerr))",
                "self.iNumberRulesRan == len(oplog) - len(old(oplog))",
            ],
            loops={
                1: dict(
                    invariant=[
                        "oplog == old(oplog) + check_phases(irange(1, 1 + _i), self.rules, lSkipPhase)",
                        "self.violations == (iFailures > 0)",
                        "iFailures == nerr - old(nerr)",
                        "iFailures >= 0",
                        "implies(not bAllPhases, not self.violations)",
                        "self.iNumberRulesRan == len(oplog) - len(old(oplog))",
                    ]
                ),
                2: dict(
                    invariant=[
                        "oplog == entry(oplog) + check_subphases(irange(0, _i), self.rules, phase)",
                        "iFailures == nerr - old(nerr)",
                        "iFailures >= entry(iFailures)",
                        "implies(_i > 0, self.violations == (iFailures > 0))",
                        "implies(_i == 0, self.violations == entry(self.violations) and iFailures == entry(iFailures))",
                        "self.iNumberRulesRan == len(oplog) - len(old(oplog))",
                    ]
                ),
                3: dict(
                    invariant=[
                        "oplog == entry(oplog) + check_events(lRules[:_i])",
                        "iFailures == nerr - old(nerr)",
                        "iFailures >= entry(iFailures)",
                        "self.violations == entry(self.violations)",
                        "self.iNumberRulesRan == len(oplog) - len(old(oplog))",
                    ]
                ),
            },
        ),
    }
)

LEMMAS = {
    # "the gated report is always the corresponding prefix of the all-phases report":
    # the gated run analyses check_phases(1..K), the all-phases run check_phases(1..7) (same rules, same skip set)
    "gated_is_prefix_of_all_phases": dict(
        vars={"rules": "list[%s]" % RULE, "skip": "list[int]", "K": "int"},
        requires=["1 <= K", "K <= 7"],
        ensures=["check_phases(irange(1, 8), rules, skip) == check_phases(irange(1, K + 1), rules, skip) + check_phases(irange(K + 1, 8), rules, skip)"],
    ),
}
