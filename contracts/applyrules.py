# -*- coding: utf-8 -*-
"""Contract for the per-file driver vsg/apply_rules.py: apply_rules  (C04c, C08, C13, C14, C16b, C19).

It composes the contracts of the functions it calls (rule_list.fix, rule_list.check_rules, write_vhdl_file,
create_backup_file: all verified on their own bodies) with ASSUMED stubs for the constructors, configuration and
the report builders (their effects on the ghost state are the assumption: they touch neither the ghost file system
nor the fix log).  Ghost state:
  oplog  (contracts/rule.py) gets the driver's own events: 'read', 'parse', 'indentmap', 'rules', 'config', 'backup',
         'write', 'clear', 'report'
  stage  : '' or the stage that rejected the file ('classify', 'local_rules', 'config')
  grules : the rule objects the rule_list constructor created (so the postcondition can name them)
  gfile  : the vhdlFile object the constructor created
  nerr_mark : value of nerr when the violations were cleared before the final check
"""

GHOSTS = {"lr_missing": "bool", "nerr_mark": "int", "stage": "str", "grules": "list[obj:vsg.rule.Rule]", "gfile": "obj:vsg.vhdlFile.vhdlFile.vhdlFile"}

CLA = "obj:argparse.Namespace"
CFG = "obj:vsg.config.config"
RL = "obj:vsg.rule_list.rule_list"
VF = "obj:vsg.vhdlFile.vhdlFile.vhdlFile"
FIXONLY = "opt[rec{fix?:rec{rule?:dict[str,list[val]]}}]"

FIELDS = {
    "argparse.Namespace.fix": "bool",
    "argparse.Namespace.backup": "bool",
    "argparse.Namespace.all_phases": "bool",
    "argparse.Namespace.fix_phase": "int",
    "argparse.Namespace.skip_phase": "list[int]",
    "argparse.Namespace.output_format": "str",
    "argparse.Namespace.local_rules": "opt[str]",
    "argparse.Namespace.junit": "opt[str]",
    "argparse.Namespace.json": "opt[str]",
    "argparse.Namespace.quality_report": "opt[str]",
    "vsg.config.config.dConfig": "obj:builtins.dict",
    "vsg.config.config.dIndent": "obj:builtins.dict",
    "vsg.config.config.dFixOnly": "opt[obj:builtins.dict]",
    "vsg.config.config.severity_list": "obj:vsg.severity.create_list",
    "builtins.ClassifyError.message": "str",
    "builtins.dict.__items__": "int",
    "builtins.ConfigurationError.message": "str",
    "vsg.rule_list.rule_list.rules": "list[obj:vsg.rule.Rule]",
}


def stub(**kw):
    d = dict(trusted="assumed effect on the ghost state of a function outside the verified set (it touches neither the ghost file system nor the fix log)")
    d.update(kw)
    return d


FS_SAME = "fs_exists == old(fs_exists) and fs_content == old(fs_content) and fs_mode == old(fs_mode)"
SKIPL = "commandLineArguments.skip_phase"
# representation invariant of the model (every line ends in a carriage_return token): what _processFile establishes and
# every fix is expected to keep; a HYPOTHESIS of the clauses about the write (observed by the bounded layer, not proved)
REP = "(len(gfile.lAllObjects) == 0 or isinstance(gfile.lAllObjects[len(gfile.lAllObjects) - 1], parser.carriage_return))"
PRE = "old(oplog) + ['read', 'parse', 'indentmap', 'rules', 'config']"

CONTRACTS = {
    "vsg.vhdlFile.utils.read_vhdlfile": stub(types={"sFileName": "str"}, returns="tuple[list[str],opt[obj:builtins.Exception]]", modifies=["ghost:oplog"], ensures=["oplog == old(oplog) + ['read']"]),
    "vsg.vhdlFile.vhdlFile.vhdlFile.__init__": stub(
        types={"filecontent": "list[str]", "sFilename": "str"},
        modifies=["ghost:oplog", "ghost:stage", "ghost:gfile"],
        raises=["ClassifyError"],
        on_raise={"*": dict(modifies=["ghost:oplog", "ghost:stage"], ensures=["oplog == old(oplog) + ['parse']", "stage == 'classify'"])},
        ensures=["oplog == old(oplog) + ['parse']", "self.filename == sFilename", "gfile is self", "stage == old(stage)"],
    ),
    "vsg.vhdlFile.vhdlFile.vhdlFile.set_indent_map": stub(types={"dIndent": "obj:builtins.dict"}, modifies=["ghost:oplog"], ensures=["oplog == old(oplog) + ['indentmap']"]),
    "vsg.rule_list.rule_list.__init__": stub(
        modifies=["ghost:oplog", "ghost:stage", "ghost:grules"],
        raises=["OSError"],
        # only a local rules directory that cannot be read makes the constructor fail
        raises_when={"OSError": "sLocalRulesDirectory is not None and lr_missing"},
        on_raise={"*": dict(modifies=["ghost:oplog", "ghost:stage"], ensures=["oplog == old(oplog) + ['rules']", "stage == 'local_rules'"])},
        ensures=[
            "oplog == old(oplog) + ['rules']",
            "self.rules == grules",
            "self.oVhdlFile is oVhdlFile",
            "not self.had_violations",
            "forall(lambda k: not self.rules[k].had_violations, 0, len(self.rules))",
            "stage == old(stage)",
        ],
    ),
    "vsg.apply_rules.configure_rules": stub(
        types={"oConfig": CFG, "oRules": RL, "configuration": "obj:builtins.dict", "iIndex": "int", "sFileName": "str"},
        modifies=["ghost:oplog", "ghost:stage", "heap:Rule.disable", "heap:Rule.fixable", "heap:Rule.phase", "heap:Rule.subphase", "heap:Rule.severity"],
        raises=["ConfigurationError"],
        on_raise={"*": dict(modifies=["ghost:oplog", "ghost:stage"], ensures=["oplog == old(oplog) + ['config']", "stage == 'config'"])},
        ensures=["oplog == old(oplog) + ['config']", "stage == old(stage)"],
    ),
    # verified: every rule of the list ends with no violations; the log event and the nerr mark are ghost code
    "vsg.rule_list.rule_list.clear_violations": dict(
        modifies=["ghost:oplog", "ghost:nerr_mark", "heap:Rule.violations"],
        ghost_exit={"oplog": "oplog + ['clear']", "nerr_mark": "nerr"},
        locals={"oRule": "obj:vsg.rule.Rule"},
        ensures=["oplog == old(oplog) + ['clear']", "nerr_mark == nerr", "forall(lambda k: self.rules[k].violations == [], 0, len(self.rules))"],
        loops={1: dict(invariant=["forall(lambda k: self.rules[k].violations == [], 0, _i)"])},
    ),
    "vsg.rule_list.rule_list.report_violations": stub(types={"sOutputFormat": "str"}, returns="tuple[str,str]", modifies=["ghost:oplog"], ensures=["oplog == old(oplog) + ['report']"]),
    "vsg.rule_list.rule_list.extract_junit_testcase": stub(types={"sVhdlFileName": "str"}, returns="obj:vsg.junit.testcase"),
    "vsg.rule_list.rule_list.extract_violation_dictionary": stub(returns="rec{violations:list[obj:builtins.dict]}"),
    "vsg.apply_rules.create_junit_testcase": stub(types={"sVhdlFileName": "str", "oException": "obj:builtins.ClassifyError"}, returns="obj:vsg.junit.testcase"),
    # ------------------------------------------------------------------------------------------------ the driver
    "vsg.apply_rules.apply_rules": dict(
        types={"commandLineArguments": CLA, "oConfig": CFG, "tIndexFileName": "tuple[int,str]"},
        requires=["oserr == ''", "stage == ''"],
        returns="tuple[val,opt[obj:vsg.junit.testcase],obj:builtins.dict,str,opt[str],bool]",
        modifies=["ghost:oplog", "ghost:fixlog", "ghost:nerr", "ghost:stage", "ghost:nphases", "ghost:nerr_mark", "ghost:grules", "ghost:gfile", "ghost:fs_exists", "ghost:fs_content", "ghost:fs_mode", "ghost:oserr", "heap:Rule.violations", "heap:Rule.had_violations", "heap:Rule.disable", "heap:Rule.fixable", "heap:Rule.phase", "heap:Rule.subphase", "heap:Rule.severity", "heap:vhdlFile.lAllObjects", "heap:vhdlFile.oTokenMap", "heap:item.value", "heap:item.indent", "heap:New.lTokens", "heap:rule_list.had_violations", "heap:rule_list.violations", "heap:rule_list.iNumberRulesRan", "heap:rule_list.lastPhaseRan"],
        # ClassifyError, ConfigurationError and the OSError of a missing local rules directory never escape (C19)
        raises=["OSError", "FileNotFoundError", "PermissionError"],
        ensures=[
            # C04c / C06: a run without --fix never touches the file system
            "implies(not commandLineArguments.fix, %s)" % FS_SAME,
            # C16: a file that fails to parse or configure is never modified (not even a backup is made), nothing is fixed
            "implies(stage != '', %s and fixlog == old(fixlog))" % FS_SAME,
            # C19: a rejected file gives exit status 1/True; after a syntax error the remaining files are still processed
            "implies(stage == 'classify', result[0] == True and result[5] == False and result[4] is not None and oplog == old(oplog) + ['read', 'parse'])",
            "implies(stage == 'config', result[0] == True and oplog == old(oplog) + ['read', 'parse', 'indentmap', 'rules', 'config'])",
            "implies(stage == 'local_rules', result[0] == 1 and oplog == old(oplog) + ['read', 'parse', 'indentmap', 'rules'])",
            # C04c: --fix on a file in which no rule fixed anything writes nothing (a backup, if asked for, is all that is created)
            "implies(commandLineArguments.fix and not commandLineArguments.backup and fixlog == old(fixlog), %s)" % FS_SAME,
            "implies(commandLineArguments.fix and fixlog == old(fixlog), fs_content[tIndexFileName[1]] == old(fs_content)[tIndexFileName[1]] and fs_mode[tIndexFileName[1]] == old(fs_mode)[tIndexFileName[1]])",
            # C08 / C13 / C14: the order of operations of an accepted file: fixing (phases 1..fix_phase, skip_phase honoured)
            # is complete before the single write; the write happens exactly when something was fixed; the report and the
            # exit status come from a fresh check of the same model with the same skip list and --all_phases flag
            "implies(stage == '' and not commandLineArguments.fix, oplog == %s + ['clear'] + check_phases(irange(1, 1 + nphases), grules, %s) + ['report'])" % (PRE, SKIPL),
            "implies(stage == '' and commandLineArguments.fix and %s, oplog == %s + (['backup'] if commandLineArguments.backup else []) + fix_phases(irange(1, commandLineArguments.fix_phase + 1), grules, %s) + (['write'] if len(fixlog) > len(old(fixlog)) else []) + ['clear'] + check_phases(irange(1, 1 + nphases), grules, %s) + ['report'])" % (REP, PRE, SKIPL, SKIPL),
            # C08: what is written is the model the final report is computed from (nothing after the write changes the token list)
            "implies(stage == '' and commandLineArguments.fix and %s and oserr == '' and len(fixlog) > len(old(fixlog)), fs_content[tIndexFileName[1]] == joinsep('\\n', LINES(gfile)[1:]) + '\\n')" % REP,
            "implies(stage == '', 1 <= nphases and nphases <= 7 and implies(commandLineArguments.all_phases, nphases == 7))",
            # C14: the exit status of an accepted file is the flag check_rules computed: set iff the final check produced an error-severity violation
            "implies(stage == '', result[0] == (nerr > nerr_mark))",
        ],
    ),
}
