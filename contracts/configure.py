# -*- coding: utf-8 -*-
"""Contracts for the configuration precedence of vsg/rule.py (C12): configure = global, then group, then rule-id.

The attribute dictionary of a rule (self.__dict__) is an object of class dict like the configuration dictionaries; that
`r.x` reads `r.__dict__['x']` is Python's semantics and NOT part of what is proved (assumption A10).  `ga` is a ghost constant
that no function modifies: a postcondition that mentions it holds for EVERY attribute name."""

GHOSTS = {"ga": "str"}

FIELDS = {
    "vsg.rule.Rule.__dict__": "obj:builtins.dict",
    "vsg.rule.Rule.configuration": "list[str]",
    "vsg.rule.Rule.groups": "list[str]",
    "vsg.rule.Rule.name": "str",
    "vsg.rule.Rule.identifier": "str",
    "vsg.rule.Rule.options": "list[obj:vsg.rules.option.New]",
    "vsg.rules.option.New.name": "str",
    "vsg.rules.option.New.value": "obj",
    "vsg.rule.Rule.deprecated": "bool",
    "vsg.rule.Rule.unique_id": "str",
    "vsg.deprecated_rule.Rule.message": "list[str]",
    "vsg.config.config.dConfig": "obj:builtins.dict",
    "vsg.config.config.severity_list": "obj:vsg.severity.create_list",
}

CFG = "obj:vsg.config.config"
RULE = "obj:vsg.rule.Rule"

# shape of a configuration VSG reads from YAML / JSON: the sections that exist are dictionaries, none of them is the rule's own
# attribute dictionary
def shape(section):
    return [
        "implies('rule' in oConfig.dConfig, isinstance(oConfig.dConfig['rule'], dict))",
        "implies('rule' in oConfig.dConfig and '%s' in oConfig.dConfig['rule'], isinstance(oConfig.dConfig['rule']['%s'], dict) and oConfig.dConfig['rule']['%s'] is not self.__dict__)" % (section, section, section),
        "oConfig.dConfig is not self.__dict__",
        "implies('rule' in oConfig.dConfig, oConfig.dConfig['rule'] is not self.__dict__)",
    ]


def level(section):
    """the attribute ga is set by this level"""
    return "('rule' in oConfig.dConfig and '%s' in oConfig.dConfig['rule'] and ga in oConfig.dConfig['rule']['%s'])" % (section, section)


SAME = "(ga in self.__dict__) == old(ga in self.__dict__) and implies(ga in self.__dict__, self.__dict__[ga] is old(self.__dict__[ga]))"
G = "oConfig.dConfig['rule']['global']"
GR = "oConfig.dConfig['rule']['group']"
HAS_GR = "('rule' in oConfig.dConfig and 'group' in oConfig.dConfig['rule'])"
RID = "(self.name + '_' + self.identifier)"
RL = "oConfig.dConfig['rule'][%s]" % RID
HAS_RL = "('rule' in oConfig.dConfig and %s in oConfig.dConfig['rule'])" % RID


def app(j, key="ga"):
    """group number j of the group section applies to this rule and mentions the attribute"""
    return "(keys(%s)[%s] in self.groups and %s in %s[keys(%s)[%s]])" % (GR, j, key, GR, GR, j)


# every group of the group section is a dictionary, none is the rule's own attribute dictionary
GROUP_SHAPE = shape("group") + ["implies(%s, forall(lambda j: isinstance(%s[keys(%s)[j]], dict) and %s[keys(%s)[j]] is not self.__dict__, 0, len(keys(%s))))" % (HAS_GR, GR, GR, GR, GR, GR)]


def group_state(n, key, same, value):
    """after the first n groups: untouched and none of them applied, or the value of one of the groups that apply"""
    return "(%s and forall(lambda j: not %s, 0, %s)) or exists(lambda j: %s and %s, 0, %s)" % (same, app("j", key), n, app("j", key), value, n)


IN_DICT = "old(ga in self.__dict__)"
GROUP_ATTR = lambda n: "implies(%s, (ga in self.__dict__) and (%s))" % (IN_DICT, group_state(n, "ga", "self.__dict__[ga] is old(self.__dict__[ga])", "self.__dict__[ga] is %s[keys(%s)[j]][ga]" % (GR, GR)))
GROUP_NOATTR = "implies(not %s, not (ga in self.__dict__))" % IN_DICT
GROUP_SEV = lambda n: group_state(n, "'severity'", "self.severity is old(self.severity)", "self.severity is sevnamed(oConfig.severity_list, %s[keys(%s)[j]]['severity'])" % (GR, GR))

CONTRACTS = {
    "vsg.severity.create_list.get_severity_named": dict(
        types={"sName": "obj"},
        returns="obj:vsg.severity.error",
        ensures=["result is sevnamed(self, sName)"],
        trusted="stub: the severity object of that name (valid configurations name severities that exist)",
    ),
    # ------------------------------------------------------------------------------------------------ global level
    "vsg.rule.configure_global_rule_attributes": dict(
        types={"self": RULE, "oConfig": CFG},
        requires=shape("global") + ["ga != 'severity'"],
        modifies=["heap:dict.__keys__", "heap:dict.__vals__", "heap:Rule.severity"],
        ensures=[
            # an attribute of the rule's configurable set that the global section mentions takes the global value
            "implies(%s and ga in self.configuration, ga in self.__dict__ and self.__dict__[ga] is %s[ga])" % (level("global"), G),
            # every other attribute is left alone
            "implies(not (%s and ga in self.configuration), %s)" % (level("global"), SAME),
            "implies(%s, self.severity is sevnamed(oConfig.severity_list, %s['severity']))" % (level("global").replace("ga", "'severity'"), G),
            "implies(not %s, self.severity is old(self.severity))" % level("global").replace("ga", "'severity'"),
            "only_dict(self.__dict__)",
        ],
        loops={
            1: dict(
                invariant=[
                    "implies(ga in self.configuration and ga in keys(%s)[:_i], ga in self.__dict__ and self.__dict__[ga] is %s[ga])" % (G, G),
                    "implies(not (ga in self.configuration and ga in keys(%s)[:_i]), %s)" % (G, SAME),
                    "implies('severity' in keys(%s)[:_i], self.severity is sevnamed(oConfig.severity_list, %s['severity']))" % (G, G),
                    "implies(not ('severity' in keys(%s)[:_i]), self.severity is old(self.severity))" % G,
                    "only_dict(self.__dict__)",
                ]
            )
        },
    ),
    # ------------------------------------------------------------------------------------------------ group level
    "vsg.rule.configure_attribute": dict(
        types={"self": RULE, "oConfig": CFG, "sGroupName": "str"},
        requires=shape("group") + ["ga != 'severity'", "implies(%s and sGroupName in %s, isinstance(%s[sGroupName], dict) and %s[sGroupName] is not self.__dict__)" % (HAS_GR, GR, GR, GR)],
        modifies=["heap:dict.__vals__", "heap:Rule.severity"],
        ensures=[
            "(ga in self.__dict__) == old(ga in self.__dict__)",
            # only attributes the rule already has are set (a group cannot add one)
            "implies(%s and sGroupName in %s and ga in %s[sGroupName] and ga in self.__dict__, self.__dict__[ga] is %s[sGroupName][ga])" % (HAS_GR, GR, GR, GR),
            "implies(not (%s and sGroupName in %s and ga in %s[sGroupName]) and ga in self.__dict__, self.__dict__[ga] is old(self.__dict__[ga]))" % (HAS_GR, GR, GR),
            "implies(%s and sGroupName in %s and 'severity' in %s[sGroupName], self.severity is sevnamed(oConfig.severity_list, %s[sGroupName]['severity']))" % (HAS_GR, GR, GR, GR),
            "implies(not (%s and sGroupName in %s and 'severity' in %s[sGroupName]), self.severity is old(self.severity))" % (HAS_GR, GR, GR),
            "only_dict(self.__dict__)",
        ],
        loops={
            1: dict(
                invariant=[
                    "(ga in self.__dict__) == old(ga in self.__dict__)",
                    "implies(ga in keys(%s[sGroupName])[:_i] and ga in self.__dict__, self.__dict__[ga] is %s[sGroupName][ga])" % (GR, GR),
                    "implies(not (ga in keys(%s[sGroupName])[:_i]) and ga in self.__dict__, self.__dict__[ga] is old(self.__dict__[ga]))" % GR,
                    "implies('severity' in keys(%s[sGroupName])[:_i], self.severity is sevnamed(oConfig.severity_list, %s[sGroupName]['severity']))" % (GR, GR),
                    "implies(not ('severity' in keys(%s[sGroupName])[:_i]), self.severity is old(self.severity))" % GR,
                    "only_dict(self.__dict__)",
                ]
            )
        },
    ),
    "vsg.rule.configure_group_rule_attributes": dict(
        fields={"vsg.rule.Rule.groups": "map[str,bool]"},  # the list of group names is only asked for membership: modelled as the set of its elements
        types={"self": RULE, "oConfig": CFG},
        requires=GROUP_SHAPE + ["ga != 'severity'"],
        modifies=["heap:dict.__vals__", "heap:Rule.severity"],
        ensures=[
            "(ga in self.__dict__) == old(ga in self.__dict__)",
            "implies(not %s and ga in self.__dict__, self.__dict__[ga] is old(self.__dict__[ga]))" % HAS_GR,
            "implies(not %s, self.severity is old(self.severity))" % HAS_GR,
            # the value of a group the rule belongs to, if one mentions the attribute; otherwise untouched
            "implies(%s, %s)" % (HAS_GR, GROUP_ATTR("len(keys(%s))" % GR)),
            "implies(%s, %s)" % (HAS_GR, GROUP_SEV("len(keys(%s))" % GR)),
            "only_dict(self.__dict__)",
        ],
        loops={1: dict(invariant=["(ga in self.__dict__) == old(ga in self.__dict__)", "only_dict(self.__dict__)", GROUP_ATTR("_i"), GROUP_SEV("_i")])},
    ),
}


RULE_SHAPE = [
    "implies('rule' in oConfig.dConfig, isinstance(oConfig.dConfig['rule'], dict))",
    "implies(%s, isinstance(%s, dict) and %s is not self.__dict__)" % (HAS_RL, RL, RL),
    "oConfig.dConfig is not self.__dict__",
    "implies('rule' in oConfig.dConfig, oConfig.dConfig['rule'] is not self.__dict__)",
]
OPT_NEW = "implies(self.options[k].name in keys(%s)[:%s], self.options[k].value is %s[self.options[k].name])"
OPT_OLD = "implies(not (self.options[k].name in keys(%s)[:%s]), self.options[k].value is old(self.options[k].value))"

CONTRACTS.update({
    # ------------------------------------------------------------------------------------------------ rule level
    "vsg.rule.configure_rule_attributes": dict(
        types={"self": RULE, "oConfig": CFG},
        requires=RULE_SHAPE + ["ga != 'severity'"],
        modifies=["heap:dict.__vals__", "heap:Rule.severity", "heap:New.value"],
        ensures=[
            "(ga in self.__dict__) == old(ga in self.__dict__)",
            "implies(%s and ga in %s and ga in self.__dict__, self.__dict__[ga] is %s[ga])" % (HAS_RL, RL, RL),
            "implies(not (%s and ga in %s) and ga in self.__dict__, self.__dict__[ga] is old(self.__dict__[ga]))" % (HAS_RL, RL),
            "implies(%s and 'severity' in %s, self.severity is sevnamed(oConfig.severity_list, %s['severity']))" % (HAS_RL, RL, RL),
            "implies(not (%s and 'severity' in %s), self.severity is old(self.severity))" % (HAS_RL, RL),
            # the option objects (the second home of an option's value) follow the rule-level section as well
            "implies(%s, forall(lambda k: %s and %s, 0, len(self.options)))" % (HAS_RL, OPT_NEW % (RL, "len(keys(%s))" % RL, RL), OPT_OLD % (RL, "len(keys(%s))" % RL)),
            "implies(not %s, forall(lambda k: self.options[k].value is old(self.options[k].value), 0, len(self.options)))" % HAS_RL,
            "only_dict(self.__dict__)",
        ],
        locals={"oOption": "obj:vsg.rules.option.New"},
        loops={
            1: dict(
                invariant=[
                    "(ga in self.__dict__) == old(ga in self.__dict__)",
                    "implies(ga in keys(%s)[:_i] and ga in self.__dict__, self.__dict__[ga] is %s[ga])" % (RL, RL),
                    "implies(not (ga in keys(%s)[:_i]) and ga in self.__dict__, self.__dict__[ga] is old(self.__dict__[ga]))" % RL,
                    "implies('severity' in keys(%s)[:_i], self.severity is sevnamed(oConfig.severity_list, %s['severity']))" % (RL, RL),
                    "implies(not ('severity' in keys(%s)[:_i]), self.severity is old(self.severity))" % RL,
                    "forall(lambda k: %s and %s, 0, len(self.options))" % (OPT_NEW % (RL, "_i", RL), OPT_OLD % (RL, "_i")),
                    "only_dict(self.__dict__)",
                ]
            ),
            2: dict(
                invariant=[
                    "forall(lambda k: implies(self.options[k].name == sAttributeName, self.options[k].value is %s[sAttributeName]), 0, _i)" % RL,
                    "forall(lambda k: implies(self.options[k].name != sAttributeName, self.options[k].value is entry(self.options[k].value)), 0, len(self.options))",
                ]
            ),
        },
    ),
})


ND = "not (self.deprecated and self.unique_id in oConfig.dConfig['rule'])"
RLM = lambda key: "(%s and %s in %s)" % (HAS_RL, key, RL)
GM = "(%s and ga in self.configuration)" % level("global")
GMS = level("global").replace("ga", "'severity'")
ANYGROUP = lambda key: "(%s and exists(lambda j: %s, 0, len(keys(%s))))" % (HAS_GR, app("j", key), GR)
HAS = "(old(ga in self.__dict__) or %s)" % GM

CONTRACTS.update({
    "vsg.rule.Rule.print_output": dict(
        external=True,
        params=["self"],
        returns="list[str]",
        ensures=["len(result) >= 1"],
        trusted="abstract: only deprecated rules (vsg/deprecated_rule.py) have it; the implementation there is verified against this contract (vsg.deprecated_rule.Rule.print_output)",
    ),
    "vsg.deprecated_rule.Rule.print_output": dict(
        returns="list[str]",
        ensures=["len(result) >= 1"],
        loops={1: dict(invariant=["len(lReturn) >= 1"])},
    ),
    # ------------------------------------------------------------------------------------------------ the three levels in order
    "vsg.rule.Rule.configure": dict(
        fields={"vsg.rule.Rule.groups": "map[str,bool]"},  # the list of group names is only asked for membership: modelled as the set of its elements
        types={"oConfig": CFG},
        returns="list[str]",
        requires=["'rule' in oConfig.dConfig", "ga != 'severity'"] + sorted(set(shape("global") + GROUP_SHAPE + RULE_SHAPE)),
        modifies=["heap:dict.__keys__", "heap:dict.__vals__", "heap:Rule.severity", "heap:New.value"],
        ensures=[
            # a deprecated rule that is configured is reported and not configured
            "implies(not (%s), len(result) >= 1 and %s and self.severity is old(self.severity))" % (ND, SAME),
            "implies(%s, len(result) == 0)" % ND,
            # C12 precedence, for every attribute name ga: the rule-level section wins over the groups, the groups over global,
            # global over the value the rule had (style default); a level counts only if it can set the attribute at all
            # (global: the rule's configurable set; group / rule: an attribute the rule has)
            "implies(%s and not %s, not (ga in self.__dict__))" % (ND, HAS),
            "implies(%s and %s, ga in self.__dict__)" % (ND, HAS),
            "implies(%s and %s and %s, self.__dict__[ga] is %s[ga])" % (ND, HAS, RLM("ga"), RL),
            "implies(%s and %s and not %s and %s, exists(lambda j: %s and self.__dict__[ga] is %s[keys(%s)[j]][ga], 0, len(keys(%s))))" % (ND, HAS, RLM("ga"), ANYGROUP("ga"), app("j"), GR, GR, GR),
            "implies(%s and %s and not %s and not %s and %s, self.__dict__[ga] is %s[ga])" % (ND, HAS, RLM("ga"), ANYGROUP("ga"), GM, G),
            "implies(%s and %s and not %s and not %s and not %s, self.__dict__[ga] is old(self.__dict__[ga]))" % (ND, HAS, RLM("ga"), ANYGROUP("ga"), GM),
            # the same for the severity
            "implies(%s and %s, self.severity is sevnamed(oConfig.severity_list, %s['severity']))" % (ND, RLM("'severity'"), RL),
            "implies(%s and not %s and %s, exists(lambda j: %s and self.severity is sevnamed(oConfig.severity_list, %s[keys(%s)[j]]['severity']), 0, len(keys(%s))))" % (ND, RLM("'severity'"), ANYGROUP("'severity'"), app("j", "'severity'"), GR, GR, GR),
            "implies(%s and not %s and not %s and %s, self.severity is sevnamed(oConfig.severity_list, %s['severity']))" % (ND, RLM("'severity'"), ANYGROUP("'severity'"), GMS, G),
            "implies(%s and not %s and not %s and not %s, self.severity is old(self.severity))" % (ND, RLM("'severity'"), ANYGROUP("'severity'"), GMS),
            "only_dict(self.__dict__)",
        ],
    ),
})


def install(engine):
    from pyvc import terms as tm
    from pyvc.values import ObjV

    def sevnamed(run, st, args, node):
        from pyvc.symex import UFS, App, REF

        UFS["sevnamed"] = ([REF, REF], REF)
        a = args[0].term
        b = run.box(st, args[1])
        return ObjV(App("sevnamed", (a, b), REF), "vsg.severity.error")

    engine.spec_funcs["sevnamed"] = sevnamed
    engine.spec_imports["deprecated_rule"] = "vsg.deprecated_rule"


# ---------------------------------------------------------------------------------------------- unknown rule names (C12, last sentence)
RL_ = "obj:vsg.rule_list.rule_list"
UID = "self.rules[k].name + '_' + self.rules[k].identifier"
KEY = "keys(configurationFile['rule'])[j]"
BAD = "(%s != 'global' and %s != 'group' and forall(lambda k: %s != %s, 0, len(self.rules)))" % (KEY, KEY, UID, KEY)
CONTRACTS.update({
    "vsg.rule_list.rule_list.get_list_of_rule_names": dict(
        returns="list[str]",
        locals={"lReturn": "list[str]", "oRule": RULE},
        ensures=["len(result) == len(self.rules)", "forall(lambda k: result[k] == %s, 0, len(self.rules))" % UID],
        loops={1: dict(invariant=["len(lReturn) == _i", "forall(lambda k: lReturn[k] == %s, 0, _i)" % UID])},
    ),
    "vsg.rule_list.rule_does_not_exist_in_list": dict(
        types={"sRule": "str", "lRuleNames": "list[str]"},
        returns="bool",
        ensures=["result == (sRule != 'global' and sRule != 'group' and forall(lambda k: lRuleNames[k] != sRule, 0, len(lRuleNames)))"],
    ),
    # a key of the rule section that is neither 'global', 'group' nor the id of a rule of the list is a configuration error:
    # raised exactly then, whatever was configured before (no state is consulted)
    "vsg.rule_list.rule_list._validate_configuration_rule_exists": dict(
        types={"configurationFile": "obj:builtins.dict"},
        requires=["'rule' in configurationFile", "isinstance(configurationFile['rule'], dict)"],
        raises=["ConfigurationError"],
        raises_when={"ConfigurationError": "exists(lambda j: %s, 0, len(keys(configurationFile['rule'])))" % BAD},
        modifies=[],
        locals={"lRuleNames": "list[str]"},
        loops={1: dict(invariant=["forall(lambda j: not %s, 0, _i)" % BAD])},
    ),
})


# ---------------------------------------------------------------------------------------------- emitting the configuration (C17)
# get_configuration dumps every name of rule.configuration and the severity's name; read back as the rule-id section of a
# configuration (configure_rule_attributes above) every entry is written back unchanged: the round trip is the identity on the
# attributes (lemma over the two contracts, checked as obligations of the function `emit_then_configure` below is not possible
# without executable code, so it is stated as the postcondition `result[ga] is self.__dict__[ga]` here and `self.__dict__[ga] is
# RL[ga]` there).
FIELDS.update({"vsg.severity.error.name": "str"})
CONTRACTS.update({
    "vsg.rule.Rule.get_configuration": dict(
        returns="obj:builtins.dict",
        requires=["forall(lambda k: self.configuration[k] in self.__dict__, 0, len(self.configuration))", "ga != 'severity'"],
        modifies=["heap:dict.__keys__", "heap:dict.__vals__"],
        ensures=[
            "result is not self.__dict__",
            # exactly the configurable names and the severity
            "(ga in result) == (ga in self.configuration)",
            "'severity' in result",
            # every value is the attribute's own value (the very object: nothing is converted on the way out)
            "implies(ga in self.configuration, result[ga] is self.__dict__[ga])",
            # the rule itself is not touched: only the new dictionary is written
            "(ga in self.__dict__) == old(ga in self.__dict__) and implies(ga in self.__dict__, self.__dict__[ga] is old(self.__dict__[ga]))",
            "only_dict(result)",
        ],
        loops={
            1: dict(
                invariant=[
                    "dConfig is not self.__dict__",
                    "only_dict(dConfig)",
                    "(ga in dConfig) == (ga in self.configuration[:_i])",
                    "implies(ga in self.configuration[:_i], dConfig[ga] is self.__dict__[ga])",
                    "not ('severity' in dConfig) or 'severity' in self.configuration[:_i]",
                    "(ga in self.__dict__) == old(ga in self.__dict__) and implies(ga in self.__dict__, self.__dict__[ga] is old(self.__dict__[ga]))",
                ]
            )
        },
    ),
})


# the whole rule list: one entry per rule that is not deprecated, under the rule's id (gr: any key)
# NOT LOADED (work in progress): 31 of 33 obligations discharge; the step of the two quantified invariants for a rule that is not
# deprecated stays open.  Nothing is claimed from it.
PENDING = {}
PENDING.update({
    "vsg.rule_list.rule_list.get_configuration": dict(
        returns="obj:builtins.dict",
        fields={"vsg.rule_list.rule_list.rules": "list[obj:vsg.rule.Rule]"},
        requires=["forall(lambda k: forall(lambda m: self.rules[k].configuration[m] in self.rules[k].__dict__, 0, len(self.rules[k].configuration)), 0, len(self.rules))", "ga != 'severity'"],
        modifies=["heap:dict.__keys__", "heap:dict.__vals__"],
        locals={"oRule": RULE},
        ensures=[
            # a key of the result is the id of a rule that is not deprecated, and every such rule has its entry
            "implies(gr in result, exists(lambda k: not isinstance(self.rules[k], deprecated_rule.Rule) and self.rules[k].unique_id == gr, 0, len(self.rules)))",
            "forall(lambda k: implies(not isinstance(self.rules[k], deprecated_rule.Rule), self.rules[k].unique_id in result), 0, len(self.rules))",
        ],
        loops={1: dict(invariant=[
            "implies(gr in dConfiguration, exists(lambda k: not isinstance(self.rules[k], deprecated_rule.Rule) and self.rules[k].unique_id == gr, 0, _i))",
            "forall(lambda k: implies(not isinstance(self.rules[k], deprecated_rule.Rule), self.rules[k].unique_id in dConfiguration), 0, _i)",
            "forall(lambda k: forall(lambda m: self.rules[k].configuration[m] in self.rules[k].__dict__, 0, len(self.rules[k].configuration)), 0, len(self.rules))",
            "forall(lambda k: dConfiguration is not self.rules[k].__dict__, 0, len(self.rules))",
        ])},
    ),
})
GHOSTS["gr"] = "str"
