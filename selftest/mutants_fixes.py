MUTANTS = [
    ("ws-replace-wrong-token", "vsg/rules/whitespace_between_tokens.py", "                lTokens[1].set_value(\" \" * dAction[\"spaces\"])", "                lTokens[2].set_value(\" \" * dAction[\"spaces\"])"),
    ("ws-drop-right-token", "vsg/rules/whitespace_between_tokens.py", "            lTokens = [lTokens[0], lTokens[2]]", "            lTokens = [lTokens[0]]"),
    ("ws-insert-at-2", "vsg/rules/whitespace_between_tokens.py", "                rules_utils.insert_whitespace(lTokens, 1, num=dAction[\"spaces\"])", "                rules_utils.insert_whitespace(lTokens, 2, num=dAction[\"spaces\"])"),
    ("ws-insert-cr", "vsg/rules/utils.py", "    if sString == \" \":\n        insert_token(lTokens, index, parser.whitespace(\" \" * num))", "    if sString == \" \":\n        insert_token(lTokens, index, parser.carriage_return())"),
    ("indent-remove-code", "vsg/rules/token_indent.py", "            oViolation.set_tokens([lTokens[1]])", "            oViolation.set_tokens([lTokens[0]])"),
    ("indent-write-code-token", "vsg/rules/token_indent.py", "                lTokens[0].set_value(lTokens[1].get_indent() * self.indent_size * \" \")", "                lTokens[1].set_value(lTokens[1].get_indent() * self.indent_size * \" \")"),
    ("indent-wrong-width", "vsg/rules/token_indent.py", "                rules_utils.insert_whitespace(lTokens, 0, lTokens[0].get_indent() * self.indent_size)", "                rules_utils.insert_whitespace(lTokens, 0, lTokens[0].get_indent() + self.indent_size)"),
    ("case-set-second-token", "vsg/rules/token_case.py", "            lTokens[0].set_value(dAction[\"value\"])", "            lTokens[-1].set_value(dAction[\"value\"])"),
    ("case-strip", "vsg/rules/token_case.py", "            lTokens[0].set_value(dAction[\"value\"])", "            lTokens[0].set_value(dAction[\"value\"].strip())"),
]

MUTANTS += [
    ("indent-analyze-zero-len1", "vsg/rules/token_indent.py", "    if len(lTokens) == 2 and lTokens[1].get_indent() == 0:", "    if len(lTokens) >= 1 and lTokens[-1].get_indent() == 0:"),
    ("indent-analyze-none-indent", "vsg/rules/token_indent.py", "    if lTokens[0].get_indent() is None:\n        return False\n    if self.indent_size == 0:", "    if self.indent_size == 0:"),
    ("indent-analyze-wrong-action", "vsg/rules/token_indent.py", "    create_violation(self, oToi, sSolution, \"add_whitespace\")", "    create_violation(self, oToi, sSolution, \"adjust_whitespace\")"),
]

W = "vsg/rules/whitespace_between_tokens.py"
MUTANTS += [
    # the analysis of two adjacent tokens asks for zero spaces again (the defect repaired by 84df827): V_F is no longer established
    ("ws-analyze-asks-for-zero", W, "        if iSpaces > 0:\n            self.create_violation(oToi, iSpaces)", "        if iSpaces >= 0:\n            self.create_violation(oToi, iSpaces)"),
    # keying the removal on the requested width instead of the option is harmless once the analysis never asks for zero spaces
    # between adjacent tokens: no alarm
    ("ws-zero-by-action-ok", W, "        if self.number_of_spaces == 0:\n            lTokens = [lTokens[0], lTokens[2]]", "        if dAction[\"spaces\"] == 0:\n            lTokens = [lTokens[0], lTokens[2]]"),
    # seeded/C10c_minimum_spaces_delegated: '>N' between adjacent tokens asks for N spaces, which the same rule rejects afterwards
    ("ws-gt-minimum-is-n", "vsg/rules/whitespace_between_tokens.py", "            return int(self.number_of_spaces[1:]) + 1\n        elif self.number_of_spaces_is_plus():", "            return int(self.number_of_spaces[1:])\n        elif self.number_of_spaces_is_plus():"),
    ("ws-lt-asks-n", "vsg/rules/whitespace_between_tokens.py", "        iSpaces = int(self.number_of_spaces[1:]) - 1\n", "        iSpaces = int(self.number_of_spaces[1:])\n"),
    ("ws-gte-strict", "vsg/rules/whitespace_between_tokens.py", "        iSpaces = int(self.number_of_spaces[2:])\n        iWhitespaces = extract_length_of_whitespace(oToi)\n        if iWhitespaces < iSpaces:\n            self.create_violation(oToi, iSpaces)", "        iSpaces = int(self.number_of_spaces[2:])\n        iWhitespaces = extract_length_of_whitespace(oToi)\n        if iWhitespaces < iSpaces:\n            self.create_violation(oToi, iSpaces - 1)"),
]
