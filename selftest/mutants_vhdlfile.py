MUTANTS = [
    ("update-off-by-one", "vsg/vhdlFile/vhdlFile.py", "            self.lAllObjects[iStart:iEnd] = lMyTokens", "            self.lAllObjects[iStart:iEnd + 1] = lMyTokens"),
    ("update-forward-order", "vsg/vhdlFile/vhdlFile.py", "        for oUpdate in lUpdates[::-1]:\n            iStart = oUpdate.oTokens.iStartIndex", "        for oUpdate in lUpdates:\n            iStart = oUpdate.oTokens.iStartIndex"),
    ("update-skip-remap-single", "vsg/vhdlFile/vhdlFile.py", "        if bUpdateMap:\n            self.oTokenMap = process_tokens(self.lAllObjects)\n\n    def get_token_map", "        if bUpdateMap and len(lUpdates) > 1:\n            self.oTokenMap = process_tokens(self.lAllObjects)\n\n    def get_token_map"),
    ("update-keep-bof", "vsg/vhdlFile/vhdlFile.py", "            lMyTokens = remove_beginning_of_file_tokens(lTokens)", "            lMyTokens = lTokens"),
    ("endindex-counts-bof", "vsg/vhdlFile/extract/tokens.py", "            if not isinstance(oToken, parser.beginning_of_file):\n                iReturn += 1", "            iReturn += 1"),
    ("extract-line-to-end", "vsg/vhdlFile/extract/tokens.py", "        for iIndex in range(0, iStart):", "        for iIndex in range(0, iEnd):"),
    ("extract-start-off", "vsg/vhdlFile/extract/tokens.py", "        iStartIndex = iStart + self.iStartIndex", "        iStartIndex = iStart + self.iStartIndex + 1"),
    ("find-next-any", "vsg/vhdlFile/utils.py", "    for iCurrent, oToken in enumerate(lObjects[iToken::]):\n        if type(oToken) == parser.item:\n            return iCurrent + iToken", "    for iCurrent, oToken in enumerate(lObjects[iToken::]):\n        if isinstance(oToken, parser.item) and not isinstance(oToken, parser.whitespace):\n            return iCurrent + iToken"),
    ("value-is-case-sensitive", "vsg/vhdlFile/utils.py", "    if lAllObjects[iToken].get_lower_value() == sString.lower():", "    if lAllObjects[iToken].get_value() == sString.lower():"),
    ("text-skips-empty-ok", "vsg/vhdlFile/utils.py", "    for oToken in lTokens:\n        sReturn += oToken.get_value()\n    return sReturn", "    for oToken in lTokens:\n        if oToken.get_value() != \"\":\n            sReturn += oToken.get_value()\n    return sReturn"),
]

MUTANTS += [
    ("wsc-comment-not-skipped", "vsg/vhdlFile/utils.py", "        or isinstance(oToken, parser.comment)\n        or isinstance(oToken, parser.blank_line)\n        or isinstance(oToken, parser.preprocessor)\n    ):\n        return True\n    else:\n        return False\n\n\ndef token_is_whitespace_token", "        or isinstance(oToken, parser.blank_line)\n        or isinstance(oToken, parser.preprocessor)\n    ):\n        return True\n    else:\n        return False\n\n\ndef token_is_whitespace_token"),
    ("next-nonws-off-by-one", "vsg/vhdlFile/utils.py", "    for iIndex in range(iToken, len(lObjects)):\n        oToken = lObjects[iIndex]\n        if token_is_whitespace_or_comment(oToken):\n            continue\n        return iIndex\n    return iCurrent", "    for iIndex in range(iToken, len(lObjects)):\n        oToken = lObjects[iIndex]\n        if token_is_whitespace_or_comment(oToken):\n            continue\n        return iIndex + 1\n    return iCurrent"),
]
