MUTANTS = [
    # seeded/C17c: booleans leave as the strings yes / no
    ("emit-converts-booleans", "vsg/rule.py", "            dConfig[sParameter] = getattr(self, sParameter)\n", "            dConfig[sParameter] = getattr(self, sParameter)\n            if isinstance(dConfig[sParameter], bool):\n                dConfig[sParameter] = \"yes\"\n"),
    ("emit-skips-last", "vsg/rule.py", "        for sParameter in self.configuration:\n            dConfig[sParameter] = getattr(self, sParameter)", "        for sParameter in self.configuration[:-1]:\n            dConfig[sParameter] = getattr(self, sParameter)"),
    ("emit-no-severity", "vsg/rule.py", "        dConfig[\"severity\"] = self.severity.name\n        return dConfig", "        return dConfig"),
    ("emit-returns-own-dict", "vsg/rule.py", "        dConfig[\"severity\"] = self.severity.name\n        return dConfig", "        dConfig[\"severity\"] = self.severity.name\n        return self.__dict__"),
    ("emit-disable-always-false", "vsg/rule.py", "        dConfig[\"severity\"] = self.severity.name\n        return dConfig", "        dConfig[\"severity\"] = self.severity.name\n        dConfig[\"disable\"] = False\n        return dConfig"),
]
