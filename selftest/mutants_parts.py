MUTANTS = [
    ("part-no-progress-guard", "vsg/vhdlFile/classify/process_statement_part.py", "        iLast = iCurrent\n        iCurrent = sequential_statement.detect(iCurrent, lObjects)", "        iCurrent = sequential_statement.detect(iCurrent, lObjects)"),
    ("part-guard-compares-start", "vsg/vhdlFile/classify/package_declarative_part.py", "    while iLast != iCurrent:\n        iLast = iCurrent", "    while iLast != iCurrent:\n        iLast = iToken"),
    ("part-always-true", "vsg/vhdlFile/classify/sequence_of_statements.py", "    while iLast != iCurrent:", "    while iLast != iCurrent or iCurrent < len(lObjects):"),
    ("until-no-progress-guard", "vsg/vhdlFile/utils.py", "        iCurrent = element.detect(iCurrent, lObjects)\n        if iLast == iCurrent:\n            return iCurrent\n", "        iCurrent = element.detect(iCurrent, lObjects)\n"),
    # the two hangs repaired by ed16019 / 46f6496, put back
    ("paren-matcher-no-guard", "vsg/vhdlFile/utils.py", "        if not is_item(lObjects, iCurrent):\n            # Nothing left to classify, the closing parenthesis is missing\n            return iCurrent\n", ""),
    ("physical-units-no-guard", "vsg/vhdlFile/classify/physical_type_definition.py", "        if iLast == iCurrent:\n            # Not a secondary unit declaration, the end of the units is missing\n            break\n", ""),
    # the two comma loops repaired by 5f82277, put back
    ("instantiation-list-rereads-start", "vsg/vhdlFile/classify/instantiation_list.py", "        iCurrent = utils.assign_next_token_required(\",\", token.comma, iCurrent, lObjects)\n        iCurrent = utils.assign_next_token(token.instantiation_label, iCurrent, lObjects)", "        iCurrent = utils.assign_next_token_required(\",\", token.comma, iToken, lObjects)\n        iCurrent = utils.assign_next_token(token.instantiation_label, iToken, lObjects)"),
    ("entity-name-list-rereads-start", "vsg/vhdlFile/classify/entity_name_list.py", "            iCurrent = utils.assign_next_token_required(\",\", token.comma, iCurrent, lObjects)", "            iCurrent = utils.assign_next_token_required(\",\", token.comma, iToken, lObjects)"),
]
