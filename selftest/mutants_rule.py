MUTANTS = [
    ("fixonly-or-for-and-keyerror", "vsg/rule.py", "        except KeyError:\n            self.violations = []", "        except KeyError:\n            return"),
    ("fixonly-not-in", "vsg/rule.py", "            if oViolation.get_line_number() in dFixOnly[\"fix\"][\"rule\"][self.unique_id]:", "            if oViolation.get_line_number() not in dFixOnly[\"fix\"][\"rule\"][self.unique_id]:"),
    ("fixonly-drop-first", "vsg/rule.py", "        for oViolation in self.violations:\n            if oViolation.get_line_number() in", "        for oViolation in self.violations[1:]:\n            if oViolation.get_line_number() in"),
    ("fix-ignore-fixable", "vsg/rule.py", "        if self.fixable:\n            self.analyze(oFile)", "        if True:\n            self.analyze(oFile)"),
    ("fix-filter-after", "vsg/rule.py", "            self._filter_out_fix_only_violations(dFixOnly)\n            for oViolation in self.violations[::-1]:\n                self._fix_violation(oViolation)\n                self.had_violations = True", "            for oViolation in self.violations[::-1]:\n                self._fix_violation(oViolation)\n                self.had_violations = True\n            self._filter_out_fix_only_violations(dFixOnly)"),
    ("fix-no-clear", "vsg/rule.py", "            oFile.update(self.violations, self.remap)\n            self.clear_violations()", "            oFile.update(self.violations, self.remap)"),
]
