F = "vsg/rule_list.py"
MUTANTS = [
    ("json-errors-only", F, "            if oRule.has_violations:\n                for oViolation in oRule.violations:\n                    dTemp = {}", "            if oRule.severity.type == severity.error_type:\n                for oViolation in oRule.violations:\n                    dTemp = {}"),
    ("json-duplicate-entry", F, "                    dReturn[\"violations\"].append(dTemp)\n", "                    dReturn[\"violations\"].append(dTemp)\n                    dReturn[\"violations\"].append(dTemp)\n"),
    ("json-skips-first", F, "                for oViolation in oRule.violations:\n                    dTemp = {}", "                for oViolation in oRule.violations[1:]:\n                    dTemp = {}"),
    ("junit-lists-warnings", F, "            if len(oRule.violations) > 0 and oRule.severity.type == severity.error_type:\n                for dViolation in oRule.violations:", "            if len(oRule.violations) > 0:\n                for dViolation in oRule.violations:"),
    ("junit-one-line-per-rule", F, "                    oFailure.add_text(sLine)\n", "                oFailure.add_text(sLine)\n"),
    ("junit-always-a-failure", F, "        if oFailure.has_text():\n            oTestcase.add_failure(oFailure)", "        oTestcase.add_failure(oFailure)"),
    ("junit-renamed-local-ok", F, "        oFailure = junit.failure(\"Failure\")\n        for oRule in self.rules:\n            if len(oRule.violations) > 0 and", "        oFailure = junit.failure(\"Failure\")\n        for oRule in self.rules:\n            if 0 < len(oRule.violations) and"),
]
