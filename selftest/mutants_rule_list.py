MUTANTS = [
    ("fix-range-off", "vsg/rule_list.py", "for phase in range(1, int(iFixPhase) + 1):", "for phase in range(1, int(iFixPhase)):"),
    ("fix-warnings-too", "vsg/rule_list.py", "                    if oRule.severity.type == severity.error_type:\n                        oRule.fix(self.oVhdlFile, dFixOnly)", "                    if True:\n                        oRule.fix(self.oVhdlFile, dFixOnly)"),
    ("fix-disabled", "vsg/rule_list.py", "                lRules = filter_out_disabled_rules(lRules)\n                lRules = enforce_prerequisites(lRules)", "                lRules = enforce_prerequisites(lRules)"),
    ("fix-normalise-cond", "vsg/rule_list.py", "            if phase == 1:\n                self.oVhdlFile.fix_blank_lines()", "            if phase == 1 and self.had_violations:\n                self.oVhdlFile.fix_blank_lines()"),
    ("fix-indent-phase3", "vsg/rule_list.py", "            if phase == 4:\n                self.oVhdlFile.set_token_indent()", "            if phase == 3:\n                self.oVhdlFile.set_token_indent()"),
    ("check-break-in-subphase", "vsg/rule_list.py", "                if iFailures > 0:\n                    self.violations = True\n", "                if iFailures > 0:\n                    self.violations = True\n                    if not bAllPhases:\n                        break\n"),
    ("check-count-warnings", "vsg/rule_list.py", "                    if oRule.severity.type == severity.error_type:\n                        iFailures += len(oRule.violations)", "                    if True:\n                        iFailures += len(oRule.violations)"),
    ("check-late-stop", "vsg/rule_list.py", "            if self.violations:\n                if not bAllPhases:\n                    break", "            if self.violations and phase > 1:\n                if not bAllPhases:\n                    break"),
    ("check-ignore-skip", "vsg/rule_list.py", "        for phase in range(1, 8):\n            if phase in lSkipPhase:\n                continue\n", "        for phase in range(1, 8):\n"),
    ("prereq-first", "vsg/rule_list.py", "    lReturn.extend(lPrereqs)\n    return lReturn", "    lPrereqs.extend(lReturn)\n    return lPrereqs"),
    ("subphase-le", "vsg/rule_list.py", "            if oRule.subphase == iSubPhase:", "            if oRule.subphase <= iSubPhase:"),
    ("check-skip-disabled-filter", "vsg/rule_list.py", "                lRules = filter_out_disabled_rules(lRules)\n\n                for oRule in lRules:", "                for oRule in lRules:"),
]

MUTANTS += [
    # the seeded change seeded/C08_indent_after_phase3: indices differ only when phase 3 is skipped
    ("fix-indent-after-phase3", "vsg/rule_list.py", "            # Update indents before checking indent\n            if phase == 4:\n                self.oVhdlFile.set_token_indent()\n\n", ""),
]
