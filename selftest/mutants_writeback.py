MUTANTS = [
    ("chmod-after-replace", "vsg/apply_rules.py", "        os.chmod(tmpfile, myStat.st_mode)\n        os.replace(tmpfile, oVhdlFile.filename)", "        os.replace(tmpfile, oVhdlFile.filename)\n        os.chmod(oVhdlFile.filename, myStat.st_mode)"),
    ("write-target-directly", "vsg/apply_rules.py", "        with open(tmpfile, \"w\", encoding=\"utf-8\", newline=dConfig.get(\"linesep\")) as oFile:", "        with open(oVhdlFile.filename, \"w\", encoding=\"utf-8\", newline=dConfig.get(\"linesep\")) as oFile:"),
    ("no-chmod", "vsg/apply_rules.py", "        os.chmod(tmpfile, myStat.st_mode)\n", ""),
    ("catch-oserror", "vsg/apply_rules.py", "    except PermissionError as err:", "    except OSError as err:"),
    ("no-finally-remove", "vsg/apply_rules.py", "    finally:\n        try:\n            os.remove(tmpfile)\n        except FileNotFoundError:\n            pass", "    finally:\n        pass"),
    ("missing-final-newline", "vsg/apply_rules.py", "            oFile.write(\"\\n\")\n", ""),
    ("replace-before-close", "vsg/apply_rules.py", "            oFile.write(\"\\n\")\n        os.chmod(tmpfile, myStat.st_mode)\n        os.replace(tmpfile, oVhdlFile.filename)", "            os.chmod(tmpfile, myStat.st_mode)\n            os.replace(tmpfile, oVhdlFile.filename)\n            oFile.write(\"\\n\")"),
    ("backup-wrong-suffix-ok", "vsg/apply_rules.py", "def create_junit_testcase(sVhdlFileName, oException):", "def create_junit_testcase(sVhdlFileName, oException):\n    pass\n\n\ndef create_junit_testcase2(sVhdlFileName, oException):"),
]
