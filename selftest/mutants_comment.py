MUTANTS = [
    ("comment-text-twice", "vsg/vhdlFile/classify/comment.py", "        for i in range(iToken + 1, iEndIndex):\n            sToken += lObjects[i].get_value()\n", "        for i in range(iToken, iEndIndex):\n            sToken += lObjects[i].get_value()\n"),
    ("comment-swallows-trailing-space", "vsg/vhdlFile/classify/comment.py", "        for i in range(iToken + 1, iEndIndex):\n            sToken += lObjects[i].get_value()\n", "        for i in range(iToken + 1, len(lObjects)):\n            sToken += lObjects[i].get_value()\n"),
    ("comment-keeps-one-duplicate", "vsg/vhdlFile/classify/comment.py", "        for i in range(iToken + 1, iEndIndex):\n            lObjects.pop(iToken + 1)", "        for i in range(iToken + 2, iEndIndex):\n            lObjects.pop(iToken + 1)"),
    ("comment-pops-in-front", "vsg/vhdlFile/classify/comment.py", "            lObjects.pop(iToken + 1)", "            lObjects.pop(iToken - 1)"),
    ("comment-inside-delimited", "vsg/vhdlFile/classify/comment.py", "    if not oOptions.inside_delimited_comment() and sToken.startswith(\"--\"):", "    if sToken.startswith(\"--\"):"),
]
