A = "vsg/vhdlFile/extract/get_tokens_at_beginning_of_line_matching.py"
M = "vsg/vhdlFile/extract/get_tokens_matching.py"
S = "vsg/vhdlFile/extract/get_sequence_of_tokens_matching.py"
B = "vsg/vhdlFile/extract/get_tokens_bounded_by.py"
U = "vsg/vhdlFile/extract/utils.py"
N = "vsg/vhdlFile/extract/get_token_and_n_tokens_before_it.py"
G = "vsg/vhdlFile/extract/get_tokens_at_beginning_of_line_matching_between_tokens_unless_between_tokens.py"
MUTANTS = [
    # order of the regions (what vhdlFile.update assumes)
    ("positions-not-sorted", U, "    lReturn.sort()\n\n    return lReturn\n\n\ndef get_indexes_of_token_pairs", "    return lReturn\n\n\ndef get_indexes_of_token_pairs"),
    ("matching-not-sorted", M, "    lIndexes.sort()\n", ""),
    ("matching-newest-first", M, "        lReturn.append(tokens.New(iIndex, iLine, [lAllTokens[iIndex]]))", "        lReturn.insert(0, tokens.New(iIndex, iLine, [lAllTokens[iIndex]]))"),
    ("unless-filter-newest-first", U, "        if bAppend:\n            lReturn.append(iIndex)", "        if bAppend:\n            lReturn.insert(0, iIndex)"),
    ("before-it-newest-first", N, "            lReturn.append(tokens.New(iStart, iLine, lAllTokens[iStart : iIndex + 1]))", "            lReturn.insert(0, tokens.New(iStart, iLine, lAllTokens[iStart : iIndex + 1]))"),
    ("generic-indent-start-plus-one", G, "lReturn.append(tokens.New(iIndex - 1, iLine, lAllTokens[iIndex - 1 : iIndex + 1]))", "lReturn.append(tokens.New(iIndex, iLine, lAllTokens[iIndex - 1 : iIndex + 1]))"),
    ("bounded-by-start-of-previous", B, "        oToi = tokens.New(iStart, iStartLine, lTemp)", "        oToi = tokens.New(iStart - 1, iStartLine, lTemp)"),
    ("bounded-by-line-of-end", B, "        iStartLine = oTokenMap.get_line_number_of_index(iStart)", "        iStartLine = oTokenMap.get_line_number_of_index(iEnd)"),
    ("bol-start-off-by-one", A, "tokens.New(iIndex - 1, iLine, lAllTokens[iIndex - 1 : iIndex + 1])", "tokens.New(iIndex, iLine, lAllTokens[iIndex - 1 : iIndex + 1])"),
    ("bol-three-tokens", A, "lAllTokens[iIndex - 1 : iIndex + 1])", "lAllTokens[iIndex - 1 : iIndex + 2])"),
    ("matching-neighbour-token", M, "[lAllTokens[iIndex]]", "[lAllTokens[iIndex - 1]]"),
    ("matching-start-plus-one", M, "tokens.New(iIndex, iLine,", "tokens.New(iIndex + 1, iLine,"),
    ("sequence-one-too-many", S, "lAllTokens[iIndex : iIndex + len(lTokens)]", "lAllTokens[iIndex : iIndex + len(lTokens) + 1]"),
    ("sequence-start-plus-one", S, "tokens.New(iIndex, iLine, lAllTokens[iIndex", "tokens.New(iIndex + 1, iLine, lAllTokens[iIndex"),
    ("sequence-shift-wrong-way", S, "iNewIdx = iTemp - iAdjust", "iNewIdx = iTemp + iAdjust"),
    ("sequence-no-match-check", S, "            if not isinstance(lAllTokens[iToken + iIndex], oToken):\n                break\n", "            pass\n"),
    ("bol-line-of-previous-line", A, "            iLine = oTokenMap.get_line_number_of_index(iIndex)\n            lReturn.append(tokens.New(iIndex - 1,", "            iLine = oTokenMap.get_line_number_of_index(iIndex - 2)\n            lReturn.append(tokens.New(iIndex - 1,"),
    ("sequence-line-of-last-token", S, "        iLine = oTokenMap.get_line_number_of_index(iIndex)\n        if bIgnoreIfLineStart", "        iLine = oTokenMap.get_line_number_of_index(iIndex + len(lTokens) - 1)\n        if bIgnoreIfLineStart"),
    ("matching-line-first-ok", M, "        iLine = oTokenMap.get_line_number_of_index(iIndex)\n        lReturn.append(tokens.New(iIndex, iLine, [lAllTokens[iIndex]]))", "        iMyLine = oTokenMap.get_line_number_of_index(iIndex)\n        lReturn.append(tokens.New(iIndex, iMyLine, [lAllTokens[iIndex]]))"),
]
