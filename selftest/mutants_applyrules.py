F = "vsg/apply_rules.py"
MUTANTS = [
    ("write-always", F, "        if oRules.had_violations:\n", "        if True:\n"),
    ("write-never", F, "        if oRules.had_violations:\n            write_vhdl_file(oVhdlFile, oConfig.dConfig)\n", "        if oRules.had_violations:\n            pass\n"),
    ("write-before-fix", F, "        oRules.fix(commandLineArguments.fix_phase, commandLineArguments.skip_phase, fix_only)\n\n        if oRules.had_violations:\n            write_vhdl_file(oVhdlFile, oConfig.dConfig)\n", "        write_vhdl_file(oVhdlFile, oConfig.dConfig)\n        oRules.fix(commandLineArguments.fix_phase, commandLineArguments.skip_phase, fix_only)\n"),
    ("skip-not-passed-to-check", F, "        lSkipPhase=commandLineArguments.skip_phase,\n", "        lSkipPhase=None,\n"),
    ("skip-not-passed-to-fix", F, "oRules.fix(commandLineArguments.fix_phase, commandLineArguments.skip_phase, fix_only)", "oRules.fix(commandLineArguments.fix_phase, None, fix_only)"),
    ("fix-phase-ignored", F, "oRules.fix(commandLineArguments.fix_phase, commandLineArguments.skip_phase, fix_only)", "oRules.fix(7, commandLineArguments.skip_phase, fix_only)"),
    ("classify-error-stops-run", F, "        sOutputErr = f\"Error while processing {sFileName}: {e.message}\"\n        return fExitStatus, testCase, dJsonEntry, sOutputStd, sOutputErr, bKeepProcessingFiles", "        sOutputErr = f\"Error while processing {sFileName}: {e.message}\"\n        return fExitStatus, testCase, dJsonEntry, sOutputStd, sOutputErr, bStopProcessingFiles"),
    ("config-error-exit-0", F, "        fExitStatus = True\n        testCase = None\n", "        fExitStatus = False\n        testCase = None\n"),
    ("config-error-not-caught", F, "    except ConfigurationError as e:", "    except ClassifyError as e:"),
    ("exit-status-from-fix-flag", F, "    fExitStatus = oRules.violations\n", "    fExitStatus = oRules.had_violations\n"),
    ("all-phases-not-passed", F, "        bAllPhases=commandLineArguments.all_phases,\n", "        bAllPhases=False,\n"),
    ("fix-when-not-asked", F, "    if commandLineArguments.fix:\n", "    if True:\n"),
    ("backup-when-not-asked", F, "        if commandLineArguments.backup:\n", "        if True:\n"),
    ("no-clear-before-final-check", F, "    oRules.clear_violations()\n", ""),
    ("fix-before-configure", F, "    try:\n        configure_rules(oConfig, oRules, configuration, iIndex, sFileName)\n", "    if commandLineArguments.fix:\n        oRules.fix(commandLineArguments.fix_phase, commandLineArguments.skip_phase, fix_only)\n    try:\n        configure_rules(oConfig, oRules, configuration, iIndex, sFileName)\n"),
    ("reordered-reads-ok", F, "    dIndent = oConfig.dIndent\n    fix_only = oConfig.dFixOnly\n", "    fix_only = oConfig.dFixOnly\n    dIndent = oConfig.dIndent\n"),
]
