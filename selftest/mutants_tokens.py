# (name, file, old, new) — each must make at least one obligation fail
MUTANTS = [
    ("ws-drop-tail", "vsg/tokens.py", "        lReturn.append(sSpace)\n\n        self.lChars = lReturn", "        self.lChars = lReturn"),
    ("three-advance-2", "vsg/tokens.py", "                lReturn.append(sChars)\n                i += 3", "                lReturn.append(sChars)\n                i += 2"),
    ("quote-right-off", "vsg/tokens.py", "        iRight = lPair[1] + 1", "        iRight = lPair[1]"),
    ("natnum-drop-e", "vsg/tokens.py", "            lReturn.append(sTemp)\n            lReturn.append(sChar)\n            sTemp = \"\"", "            lReturn.append(sTemp)\n            sTemp = \"\""),
    ("bitstring-digit-suffix", "vsg/tokens.py", 'endswith(("b", "o", "x", "d"))', 'endswith(("b", "o", "x", "d", "1"))'),
    ("filter-index", "vsg/tokens.py", "lNextLiteral = lLiterals[iIndex + 1]", "lNextLiteral = lLiterals[iIndex + 2]"),
    ("words-drop-tail", "vsg/tokens.py", "        if len(sTemp) != 0:\n            lReturn.append(sTemp)\n\n        self.lChars = lReturn", "        self.lChars = lReturn"),
    ("ws-nonspace-acc", "vsg/tokens.py", "                if sSpace.isspace():\n                    lReturn.append(sSpace)\n                    sSpace = \"\"", "                if sSpace.isspace():\n                    sSpace = \"\""),
    ("backslash-order", "vsg/tokens.py", "            sSymbol = append_to_symbol(bSymbol, sSymbol, sChar)", "            sSymbol = append_to_symbol(True, sSymbol, sChar)"),
    ("split-index-wrong", "vsg/tokens.py", "    lReturn.append(sIntegerAndBaseSpecifier[iSplitIndex:])", "    lReturn.append(sIntegerAndBaseSpecifier[iSplitIndex + 1:])"),
    ("create-skip-pass-ok", "vsg/tokens.py", "    oLine.combine_three_character_symbols()\n", ""),
]
