MUTANTS = [
    ("merge-later-section-ignored", "vsg/config.py", "        else:\n            dReturn[sKey] = tempConfiguration[sKey]\n    return dReturn", "        else:\n            pass\n    return dReturn"),
    ("merge-earlier-section-wins", "vsg/config.py", "        else:\n            dReturn[sKey] = tempConfiguration[sKey]\n    return dReturn", "        else:\n            if sKey not in dReturn:\n                dReturn[sKey] = tempConfiguration[sKey]\n    return dReturn"),
    ("merge-rule-section-replaced", "vsg/config.py", "        elif sKey == \"rule\":", "        elif sKey == \"rule_\":"),
    ("merge-earlier-rule-wins", "vsg/config.py", "                try:\n                    dReturn[sKey][sRule] = tempConfiguration[sKey][sRule]\n", "                try:\n                    if sRule not in dReturn[sKey]:\n                        dReturn[sKey][sRule] = tempConfiguration[sKey][sRule]\n"),
    ("merge-fresh-rule-section-shared", "vsg/config.py", "                except KeyError:\n                    dReturn[sKey] = {}\n", "                except KeyError:\n                    dReturn[sKey] = tempConfiguration[sKey]\n"),
    ("merge-first-rule-only", "vsg/config.py", "                    dReturn[sKey] = {}\n                    dReturn[sKey][sRule] = tempConfiguration[sKey][sRule]\n", "                    dReturn[sKey] = {}\n                    dReturn[sKey][sRule] = tempConfiguration[sKey][sRule]\n                break\n"),
    ("merge-returns-later-file", "vsg/config.py", "            dReturn[sKey] = tempConfiguration[sKey]\n    return dReturn", "            dReturn[sKey] = tempConfiguration[sKey]\n    return tempConfiguration"),
]
